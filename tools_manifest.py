#!/usr/bin/env python3
# Regenerates MANIFEST.json from claims.json (per-property level text) — keeps the manifest valid at all times.
import json, sys
claims = json.load(open('/verif/claims.json'))
props = [json.loads(l) for l in open('/verif/properties.jsonl')]
checks = []; na = []
for p in props:
    pid = p['id']
    c = claims.get(pid)
    if c and c.get('claimed'):
        checks.append({
            "property_id": pid,
            "quick_cmd": f"./check {pid} quick",
            "thorough_cmd": f"./check {pid} thorough",
            "evidence_file": f"/verif/evidence/{pid}.json",
            "replay_cmd_template": "./check --replay {path}",
            "engine": "govc",
            "level_claimed": {"category": "proof", "text": c['text'], "design_ref": c.get('design_ref', f"DESIGN.md §3 {pid}")},
            "level_note": c['note'],
            "technique": c.get('technique', "contract-based deductive verification: VCs generated from go/ssa of the real functions, discharged by z3/cvc5"),
        })
    else:
        na.append({"property_id": pid, "reason": (c or {}).get('reason', 'contracts not yet written (work in progress)')})
m = {
 "version": 1,
 "setup_cmd": "cd /verif/govc && GOFLAGS=-mod=mod GOPROXY=off GOTOOLCHAIN=local go1.26.8 build -o ../bin/govc .",
 "hooks": {"guard": "verif", "enable": "-tags=verif (contract files are comment-only; the loader does not need the tag)",
           "baseline_off_cmd": json.load(open('/root/.vp/BASELINE.json'))['cmd'],
           "source_commits": claims.get('_hooks', []), "add_only": True},
 "engines": [{"name": "govc", "path": "/verif/govc", "serves_properties": [c['property_id'] for c in checks],
              "kind_free_text": "own VC generator over go/ssa (path-wise symbolic execution with loop invariants, calls by contract), SMT back ends z3 5.1.0 / cvc5 1.0 / z3 4.8.12"}],
 "checks": checks,
 "not_applicable": na,
 "notes": "Contracts live in /verif/contracts/<pkg>/verif_contracts.go (mirrored as comment-only //go:build verif files in /repo). See DESIGN.md."
}
json.dump(m, open('/verif/MANIFEST.json', 'w'), indent=1)
print("claimed:", [c['property_id'] for c in checks])
