package quic

// Bounded stand-in for C03 (labelled "bounded", never counted as proved).
//
// It stands in for the functions of the reassembly path that are outside the verifier's reach:
//   (*frameSorter).push / findStartGap / findEndGap   (linked-list gap representation, generic list code)
//   (*frameSorter).Peek, (*ReceiveStream).readImpl, (*ReceiveStream).peekImpl (blocking waits)
// Everything around them (Pop, dequeueNextFrame, handleStreamFrameImpl, handleResetStreamFrameImpl, the
// flow controller, the crypto stream, STREAM frame parsing) is under contract and discharged deductively.
//
// The harness enumerates EVERY operation sequence up to a length bound over a small offset lattice, for cell sizes
// on both sides of the copy threshold (protocol.MinStreamFrameBufferSize = 128), and compares the real code with a
// byte-array reference model. This file is injected with `go test -overlay`; it is not part of the repository.
//
// Bound (env VERIF_BOUND_TIER): quick: all sorter sequences of length <= 5, all stream sequences of length <= 4 (with
// resets/CancelRead: <= 3); thorough: one longer each, plus VERIF_BOUND_RANDOM random sequences of length 10-12. Lattice: offsets {0,c,2c,3c,4c} for c in {3, 70, 128}.

import (
	"errors"
	"fmt"
	"io"
	"math/rand"
	"os"
	"runtime"
	"strconv"
	"strings"
	"sync"
	"sync/atomic"
	"testing"
	"time"

	"github.com/refraction-networking/uquic/internal/flowcontrol"
	"github.com/refraction-networking/uquic/internal/monotime"
	"github.com/refraction-networking/uquic/internal/protocol"
	"github.com/refraction-networking/uquic/internal/qerr"
	"github.com/refraction-networking/uquic/internal/utils"
	"github.com/refraction-networking/uquic/internal/wire"
)

const vbPoints = 5 // lattice points 0..4

type vbOp struct {
	kind byte // 'f' frame, 'r' read, 'p' peek, 'x' reset, 'c' cancelRead
	a, b int  // lattice points (frames: [a,b) ; a==b: empty frame), reads/peeks: size selector in a
	fin  bool
}

func (o vbOp) String() string {
	switch o.kind {
	case 'f':
		return fmt.Sprintf("frame[%d,%d)fin=%v", o.a, o.b, o.fin)
	case 'r':
		return fmt.Sprintf("read(sz%d)", o.a)
	case 'p':
		return fmt.Sprintf("peek(sz%d)", o.a)
	case 'x':
		return fmt.Sprintf("reset(final=%d,reliable=%d)", o.a, o.b)
	case 'c':
		return "cancelRead"
	}
	return "?"
}

func vbSource(n int) []byte {
	s := make([]byte, n)
	for i := range s {
		s[i] = byte((i*7 + 3) % 251) // never 0xff
	}
	return s
}

type vbBuf struct {
	data     []byte
	recycled int32
}

type vbSender struct{ completed int32 }

func (s *vbSender) onHasConnectionData()                                                {}
func (s *vbSender) onHasStreamData(protocol.StreamID, *SendStream)                      {}
func (s *vbSender) onHasStreamControlFrame(protocol.StreamID, streamControlFrameGetter) {}
func (s *vbSender) onStreamCompleted(protocol.StreamID)                                 { atomic.AddInt32(&s.completed, 1) }

// ---------- sorter-level harness ----------

func vbSorterAlphabet() []vbOp {
	var ops []vbOp
	for a := 0; a < vbPoints; a++ {
		for b := a + 1; b < vbPoints; b++ {
			ops = append(ops, vbOp{kind: 'f', a: a, b: b})
		}
	}
	ops = append(ops, vbOp{kind: 'r'}) // pop one entry
	return ops
}

// vbRunSorter runs one sequence against a fresh frameSorter; returns "" or a failure description.
func vbRunSorter(c int, seq []vbOp) string {
	src := vbSource(vbPoints * c)
	s := newFrameSorter()
	recv := make([]bool, len(src))
	readPos := 0
	var bufs []*vbBuf
	check := func(off protocol.ByteCount, data []byte) string {
		if int(off) != readPos {
			return fmt.Sprintf("Pop returned offset %d, expected read position %d", off, readPos)
		}
		for i, x := range data {
			p := readPos + i
			if p >= len(src) || !recv[p] {
				return fmt.Sprintf("Pop delivered byte at %d that was never received", p)
			}
			if x != src[p] {
				return fmt.Sprintf("Pop delivered %#x at stream offset %d, sent %#x (buffer recycled while undelivered, or wrong cut)", x, p, src[p])
			}
		}
		readPos += len(data)
		return ""
	}
	pop := func() (bool, string) {
		off, data, done := s.Pop()
		if data == nil {
			if readPos < len(src) && recv[readPos] {
				return false, fmt.Sprintf("Pop returned nothing although byte %d was received", readPos)
			}
			return false, ""
		}
		if len(data) == 0 {
			return false, "Pop returned an empty entry"
		}
		if msg := check(off, data); msg != "" {
			return false, msg
		}
		if done != nil {
			done()
		}
		return true, ""
	}
	for _, op := range seq {
		switch op.kind {
		case 'f':
			lo, hi := op.a*c, op.b*c
			b := &vbBuf{data: append([]byte(nil), src[lo:hi]...)}
			bufs = append(bufs, b)
			err := s.Push(b.data, protocol.ByteCount(lo), func() {
				atomic.AddInt32(&b.recycled, 1)
				for i := range b.data { // the pool hands the buffer to the next packet
					b.data[i] = 0xff
				}
			})
			if err != nil {
				return "Push returned " + err.Error()
			}
			for i := lo; i < hi; i++ {
				recv[i] = true
			}
		case 'r':
			if _, msg := pop(); msg != "" {
				return msg
			}
		}
		for _, b := range bufs {
			if atomic.LoadInt32(&b.recycled) > 1 {
				return "a receive buffer was recycled twice"
			}
		}
		// HasMoreData must be true whenever received-but-undelivered bytes exist beyond the read position
		und := false
		for i := readPos; i < len(src); i++ {
			und = und || recv[i]
		}
		if s.HasMoreData() != und {
			return fmt.Sprintf("HasMoreData()=%v but undelivered received bytes exist=%v", s.HasMoreData(), und)
		}
	}
	// drain: everything contiguous from readPos must come out, exactly once, byte-identical
	for {
		ok, msg := pop()
		if msg != "" {
			return msg
		}
		if !ok {
			break
		}
	}
	for _, b := range bufs {
		if atomic.LoadInt32(&b.recycled) > 1 {
			return "a receive buffer was recycled twice"
		}
	}
	return ""
}

// ---------- stream-level harness ----------

func vbStreamAlphabet(withReset bool) []vbOp {
	var ops []vbOp
	for a := 0; a < vbPoints; a++ {
		for b := a; b < vbPoints; b++ {
			if b > a {
				ops = append(ops, vbOp{kind: 'f', a: a, b: b})
			}
			ops = append(ops, vbOp{kind: 'f', a: a, b: b, fin: true})
		}
	}
	for sz := 0; sz < 3; sz++ {
		ops = append(ops, vbOp{kind: 'r', a: sz}, vbOp{kind: 'p', a: sz})
	}
	if withReset {
		for f := 0; f < vbPoints; f += 2 {
			for r := 0; r <= f; r += 2 {
				ops = append(ops, vbOp{kind: 'x', a: f, b: r})
			}
		}
		ops = append(ops, vbOp{kind: 'c'})
	}
	return ops
}

type vbModel struct {
	src       []byte
	recv      []bool
	highest   int // highest received offset
	final     int // -1 unknown
	readPos   int
	eof       bool // EOF was returned
	cancelled bool // CancelRead called
	reset     bool // RESET_STREAM accepted (before local cancel)
	reliable  int
}

func (m *vbModel) avail() int {
	n := 0
	for m.readPos+n < len(m.src) && m.recv[m.readPos+n] && (m.final < 0 || m.readPos+n < m.final) {
		n++
	}
	return n
}

func vbSize(c, sel int) int {
	switch sel {
	case 0:
		return 1
	case 1:
		return c + 1
	}
	return vbPoints*c + 7
}

// callNonBlocking runs f and fails if it does not return (a wrong implementation may block forever).
func vbCall(f func()) bool {
	done := make(chan struct{})
	go func() { f(); close(done) }()
	select {
	case <-done:
		return true
	case <-time.After(5 * time.Second):
		return false
	}
}

func vbRunStream(c int, seq []vbOp) string {
	src := vbSource(vbPoints * c)
	m := &vbModel{src: src, recv: make([]bool, len(src)), final: -1}
	connFC := flowcontrol.NewConnectionFlowController(1<<20, 1<<20, nil, &utils.RTTStats{}, utils.DefaultLogger)
	fc := flowcontrol.NewStreamFlowController(4, connFC, 1<<20, 1<<20, 1<<20, &utils.RTTStats{}, utils.DefaultLogger)
	sender := &vbSender{}
	str := newReceiveStream(4, sender, fc)
	var bufs []*vbBuf
	now := monotime.Now()
	for step, op := range seq {
		at := fmt.Sprintf("step %d (%v): ", step, op)
		switch op.kind {
		case 'f':
			lo, hi := op.a*c, op.b*c
			b := &vbBuf{data: append([]byte(nil), src[lo:hi]...)}
			bufs = append(bufs, b)
			fr := &wire.StreamFrame{StreamID: 4, Offset: protocol.ByteCount(lo), Data: b.data, Fin: op.fin}
			// (buffer recycling is checked at sorter level, where the callback is injectable; these frames are not pooled)
			// RFC 9000 section 4.5: what must be rejected with FINAL_SIZE_ERROR
			wantErr := m.final >= 0 && (hi > m.final || op.fin && hi != m.final) || op.fin && hi < m.highest
			err := str.handleStreamFrame(fr, now)
			var terr *qerr.TransportError
			isFS := errors.As(err, &terr) && terr.ErrorCode == qerr.FinalSizeError
			if wantErr != isFS {
				return at + fmt.Sprintf("frame contradicting the final size: expected FINAL_SIZE_ERROR=%v, got %v", wantErr, err)
			}
			if err != nil {
				if !isFS {
					return at + "unexpected error " + err.Error()
				}
				return "" // the connection is closed on this error: the history ends here
			}
			for i := lo; i < hi; i++ {
				m.recv[i] = true
			}
			if hi > m.highest {
				m.highest = hi
			}
			if op.fin {
				m.final = hi
			}
		case 'x':
			fs, rs := op.a*c, op.b*c
			wantErr := m.final >= 0 && fs != m.final || fs < m.highest
			err := str.handleResetStreamFrame(&wire.ResetStreamFrame{StreamID: 4, ErrorCode: 1234, FinalSize: protocol.ByteCount(fs), ReliableSize: protocol.ByteCount(rs)}, now)
			var terr *qerr.TransportError
			isFS := errors.As(err, &terr) && terr.ErrorCode == qerr.FinalSizeError
			if wantErr != isFS {
				return at + fmt.Sprintf("reset contradicting the final size: expected FINAL_SIZE_ERROR=%v, got %v", wantErr, err)
			}
			if err != nil {
				return ""
			}
			m.final = fs
			if fs > m.highest {
				m.highest = fs
			}
			if (!m.reset && m.reliable == 0) || rs < m.reliable {
				m.reliable = rs
			}
			if !m.cancelled {
				m.reset = true
			}
		case 'c':
			str.CancelRead(99)
			if !m.eof {
				m.cancelled = true
			}
		case 'r', 'p':
			n := vbSize(c, op.a)
			p := make([]byte, n)
			av := m.avail()
			if m.reset && m.readPos+av > m.reliable { // after a reset only the reliable prefix is promised
				if m.reliable > m.readPos {
					av = m.reliable - m.readPos
				} else {
					av = 0
				}
			}
			resetEffective := m.reset && m.readPos >= m.reliable
			atEnd := m.final >= 0 && m.readPos == m.final
			// would the call block? (no data, no end, no cancellation): then it is not part of this history
			if op.kind == 'r' && av == 0 && !atEnd && !m.cancelled && !resetEffective && !m.eof {
				continue
			}
			if op.kind == 'p' {
				enough := av >= n || m.final >= 0 && m.readPos+av == m.final || m.reset && m.readPos+av >= m.reliable
				if !enough && !m.cancelled && !resetEffective && !m.eof {
					continue
				}
			}
			var got int
			var err error
			ok := vbCall(func() {
				if op.kind == 'r' {
					got, err = str.Read(p)
				} else {
					got, err = str.Peek(p)
				}
			})
			if !ok {
				return at + fmt.Sprintf("call blocked although %d contiguous bytes are available (final=%d readPos=%d)", av, m.final, m.readPos)
			}
			if got < 0 || got > n {
				return at + fmt.Sprintf("returned n=%d for a buffer of %d", got, n)
			}
			// the bytes handed to the reader are exactly the sent bytes at the read position
			for i := 0; i < got; i++ {
				q := m.readPos + i
				if q >= len(src) || !m.recv[q] {
					return at + fmt.Sprintf("delivered byte at stream offset %d that was never received", q)
				}
				if m.final >= 0 && q >= m.final {
					return at + fmt.Sprintf("delivered byte at stream offset %d beyond the final size %d", q, m.final)
				}
				if p[i] != src[q] {
					return at + fmt.Sprintf("delivered %#x at stream offset %d, sent %#x", p[i], q, src[q])
				}
			}
			var serr *StreamError
			isCancel := errors.As(err, &serr)
			switch {
			case m.cancelled:
				if got != 0 || err == nil {
					return at + fmt.Sprintf("after CancelRead expected (0, error), got (%d, %v)", got, err)
				}
			case m.reset:
				// data up to the reliable size, then the remote error
				if isCancel {
					if !serr.Remote || serr.ErrorCode != 1234 {
						return at + fmt.Sprintf("wrong reset error %v", err)
					}
					if m.readPos+got < m.reliable {
						return at + fmt.Sprintf("reset error delivered at offset %d before the reliable size %d", m.readPos+got, m.reliable)
					}
				} else if err == io.EOF {
					if m.readPos+got != m.final {
						return at + fmt.Sprintf("EOF at offset %d, final size %d", m.readPos+got, m.final)
					}
				} else if err != nil {
					return at + "unexpected error " + err.Error()
				}
				// (data beyond the reliable size may or may not be delivered: no count is demanded here)
			default:
				if err != nil && err != io.EOF {
					return at + "unexpected error " + err.Error()
				}
				want := min(n, av)
				if got != want {
					return at + fmt.Sprintf("returned %d bytes; %d contiguous bytes available for a buffer of %d", got, av, n)
				}
				endReached := m.final >= 0 && m.readPos+got == m.final
				if err == io.EOF && !endReached {
					return at + fmt.Sprintf("EOF at offset %d but final size is %d", m.readPos+got, m.final)
				}
				// io.Reader allows (n, nil) followed by (0, EOF): the end must be signalled at the latest by the call made at the end
				if atEnd && err != io.EOF {
					return at + fmt.Sprintf("at the final size %d: expected (0, EOF), got (%d, %v)", m.final, got, err)
				}
				if op.kind == 'p' && err == nil && got < n {
					return at + fmt.Sprintf("Peek returned %d < %d without an error", got, n)
				}
			}
			if op.kind == 'r' {
				m.readPos += got
				if err == io.EOF {
					m.eof = true
				}
			}
		}
		for _, b := range bufs {
			if atomic.LoadInt32(&b.recycled) > 1 {
				return at + "a receive buffer was recycled twice"
			}
		}
		if atomic.LoadInt32(&sender.completed) > 1 {
			return at + "stream completion reported twice"
		}
	}
	return ""
}

// ---------- enumeration ----------

func vbEnumerate(t *testing.T, name string, alphabet []vbOp, maxLen int, cells []int, run func(c int, seq []vbOp) string) (cases int64) {
	type job struct {
		c     int
		first int
	}
	jobs := make(chan job)
	var wg sync.WaitGroup
	var mu sync.Mutex
	var fails []string
	var n int64
	worker := func() {
		defer wg.Done()
		for j := range jobs {
			seq := make([]vbOp, 0, maxLen)
			var rec func(depth int)
			rec = func(depth int) {
				if len(seq) > 0 {
					atomic.AddInt64(&n, 1)
					if msg := run(j.c, seq); msg != "" {
						mu.Lock()
						if len(fails) < 5 {
							fails = append(fails, fmt.Sprintf("cell=%d seq=%v: %s", j.c, seq, msg))
						}
						mu.Unlock()
						return
					}
				}
				if depth == maxLen {
					return
				}
				for _, op := range alphabet {
					seq = append(seq, op)
					rec(depth + 1)
					seq = seq[:len(seq)-1]
				}
			}
			seq = append(seq, alphabet[j.first])
			rec(1)
		}
	}
	for i := 0; i < runtime.NumCPU(); i++ {
		wg.Add(1)
		go worker()
	}
	for _, c := range cells {
		for f := range alphabet {
			jobs <- job{c, f}
		}
	}
	close(jobs)
	wg.Wait()
	fmt.Printf("VERIF-BOUNDED-STAT name=%s cases=%d alphabet=%d maxlen=%d cells=%v\n", name, n, len(alphabet), maxLen, cells)
	for _, f := range fails {
		fmt.Printf("VERIF-BOUNDED-FAIL name=%s %s\n", name, f)
	}
	if len(fails) > 0 {
		t.Fail()
	}
	return n
}

func vbRandom(t *testing.T, name string, alphabet []vbOp, count, length int, cells []int, seed int64, run func(c int, seq []vbOp) string) {
	rng := rand.New(rand.NewSource(seed))
	fails := 0
	for i := 0; i < count && fails < 3; i++ {
		c := cells[rng.Intn(len(cells))]
		seq := make([]vbOp, length)
		for k := range seq {
			seq[k] = alphabet[rng.Intn(len(alphabet))]
		}
		if msg := run(c, seq); msg != "" {
			fmt.Printf("VERIF-BOUNDED-FAIL name=%s cell=%d seq=%v: %s\n", name, c, seq, msg)
			fails++
		}
	}
	fmt.Printf("VERIF-BOUNDED-STAT name=%s-random cases=%d length=%d seed=%d\n", name, count, length, seed)
	if fails > 0 {
		t.Fail()
	}
}

func vbTier() (maxLenSorter, maxLenStream, random int) {
	if strings.TrimSpace(os.Getenv("VERIF_BOUND_TIER")) == "thorough" {
		r := 200000
		if v, err := strconv.Atoi(os.Getenv("VERIF_BOUND_RANDOM")); err == nil {
			r = v
		}
		return 6, 5, r
	}
	return 5, 4, 0
}

func TestVerifBoundedC03Sorter(t *testing.T) {
	ls, _, random := vbTier()
	cells := []int{3, 70, 128}
	vbEnumerate(t, "sorter", vbSorterAlphabet(), ls, cells, vbRunSorter)
	if random > 0 {
		seed, _ := strconv.ParseInt(os.Getenv("VERIF_SEED"), 10, 64)
		vbRandom(t, "sorter", vbSorterAlphabet(), random, 12, cells, seed, vbRunSorter)
	}
}

func TestVerifBoundedC03Stream(t *testing.T) {
	_, lst, random := vbTier()
	cells := []int{3, 70, 128}
	vbEnumerate(t, "stream", vbStreamAlphabet(false), lst, cells, vbRunStream)
	vbEnumerate(t, "stream-reset", vbStreamAlphabet(true), lst-1, cells, vbRunStream)
	if random > 0 {
		seed, _ := strconv.ParseInt(os.Getenv("VERIF_SEED"), 10, 64)
		vbRandom(t, "stream", vbStreamAlphabet(true), random/4, 10, cells, seed, vbRunStream)
	}
}
