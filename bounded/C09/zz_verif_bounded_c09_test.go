package quic

// Bounded stand-in for C09 (labelled "bounded", never counted as proved).
//
// It stands in for the byte-level behaviour of the Initial frame builders, which the contract language cannot state
// (the output is a concatenation of serialized frames): QUICFrames.build, QUICRandomFrames.buildInternal,
// QUICMultiDatagramFrames.BuildForDatagram, QUICFrames.buildAbsolute, QUICFlightFrames.BuildFlight,
// QUICRandomFlightDatagram.build, and for the multi-call coverage of the ClientHello scrambler
// (initialCryptoStream.Write ... PopCryptoFrame*). The per-call pieces (range resolution, split arithmetic, cut
// invariant, true offset of every popped frame, plan validation, SNI/ECH location) are under contract.
//
// Oracle: the emitted payload parses as PADDING / PING / CRYPTO frames only; every CRYPTO frame carries exactly the
// ClientHello bytes of its absolute offset; together the frames cover the ClientHello completely; or the builder returned
// an error before anything was produced. Injected with `go test -overlay`; not part of the repository.
//
// Bound (env VERIF_BOUND_TIER): ClientHello lengths {0,1,2,63,64,65,300,1200,2500}; the parameter grids below;
// quick: 40 random draws per random configuration, thorough: 1500.

import (
	"bytes"
	"fmt"
	"os"
	"strings"
	"testing"

	"github.com/refraction-networking/uquic/internal/protocol"
	"github.com/refraction-networking/uquic/quicvarint"
)

type vb9Frame struct {
	typ  byte
	off  uint64
	data []byte
}

func vb9Parse(p []byte) ([]vb9Frame, error) {
	var out []vb9Frame
	for len(p) > 0 {
		switch p[0] {
		case 0x00:
			out = append(out, vb9Frame{typ: 0})
			p = p[1:]
		case 0x01:
			out = append(out, vb9Frame{typ: 1})
			p = p[1:]
		case 0x06:
			p = p[1:]
			off, n, err := quicvarint.Parse(p)
			if err != nil {
				return nil, fmt.Errorf("truncated CRYPTO offset")
			}
			p = p[n:]
			l, n, err := quicvarint.Parse(p)
			if err != nil {
				return nil, fmt.Errorf("truncated CRYPTO length")
			}
			p = p[n:]
			if uint64(len(p)) < l {
				return nil, fmt.Errorf("CRYPTO frame declares %d bytes, %d left", l, len(p))
			}
			out = append(out, vb9Frame{typ: 6, off: off, data: p[:l]})
			p = p[l:]
		default:
			return nil, fmt.Errorf("frame type %#x is not an Initial-level PADDING/PING/CRYPTO frame", p[0])
		}
	}
	return out, nil
}

func vb9Hello(n int) []byte {
	b := make([]byte, n)
	for i := range b {
		b[i] = byte((i*13 + 5) % 253)
	}
	return b
}

// vb9Check: payloads (one per datagram) must carry hello[lo:hi) at absolute offsets base+lo.. ; covered accumulates.
func vb9Check(payloads [][]byte, hello []byte, streamBase uint64, covered []bool, wantCryptoFrames int) string {
	nCrypto := 0
	for di, p := range payloads {
		frames, err := vb9Parse(p)
		if err != nil {
			return fmt.Sprintf("datagram %d: %v", di, err)
		}
		for _, f := range frames {
			if f.typ != 6 {
				continue
			}
			nCrypto++
			if f.off < streamBase || f.off-streamBase+uint64(len(f.data)) > uint64(len(hello)) {
				return fmt.Sprintf("datagram %d: CRYPTO [%d,%d) outside the ClientHello [%d,%d)", di, f.off, f.off+uint64(len(f.data)), streamBase, streamBase+uint64(len(hello)))
			}
			rel := int(f.off - streamBase)
			if !bytes.Equal(f.data, hello[rel:rel+len(f.data)]) {
				return fmt.Sprintf("datagram %d: CRYPTO frame at offset %d does not carry the ClientHello bytes of that offset (shifted, truncated or zero-extended)", di, f.off)
			}
			for i := range f.data {
				covered[rel+i] = true
			}
		}
	}
	_ = wantCryptoFrames
	return ""
}

func vb9AllCovered(covered []bool) string {
	for i, c := range covered {
		if !c {
			return fmt.Sprintf("ClientHello byte %d of %d is carried by no CRYPTO frame", i, len(covered))
		}
	}
	return ""
}

type vb9Stats struct {
	cases, builderErrors int64
	fails               []string
}

func (st *vb9Stats) fail(format string, a ...interface{}) {
	if len(st.fails) < 6 {
		st.fails = append(st.fails, fmt.Sprintf(format, a...))
	}
}

func vb9Guard(st *vb9Stats, what string, f func()) {
	defer func() {
		if r := recover(); r != nil {
			st.fail("%s: PANIC %v", what, r)
		}
	}()
	f()
}

var vb9Lengths = []int{0, 1, 2, 63, 64, 65, 300, 1200, 2500}

// tilings of [0,L) into up to 3 pieces over cut candidates
func vb9Tilings(L int) [][]int {
	cands := []int{1, L / 3, L / 2, L - 1}
	var pts []int
	seen := map[int]bool{}
	for _, c := range cands {
		if c > 0 && c < L && !seen[c] {
			seen[c] = true
			pts = append(pts, c)
		}
	}
	out := [][]int{{}}
	for i, a := range pts {
		out = append(out, []int{a})
		for _, b := range pts[i+1:] {
			if b > a {
				out = append(out, []int{a, b})
			}
		}
	}
	return out
}

func vb9QUICFrames(st *vb9Stats) {
	for _, L := range vb9Lengths {
		hello := vb9Hello(L)
		for _, cuts := range vb9Tilings(L) {
			for _, declBase := range []int{0, 70, 1201} { // lowest declared offset (pass-through path re-declares absolute offsets)
				for _, baseOffset := range []uint64{0, 1200, 16384} {
					for _, explicitLast := range []bool{false, true} {
						for _, extras := range []int{0, 1, 2} { // 0: CRYPTO only, 1: PING first, 2: PADDING in the middle + PING
							if extras != 0 && declBase != 0 {
								continue // non-CRYPTO frames report offset 0, so such layouts address the slice from 0
							}
							if L == 0 && len(cuts) > 0 {
								continue
							}
							var qfs QUICFrames
							bounds := append(append([]int{0}, cuts...), L)
							for i := 0; i+1 < len(bounds); i++ {
								ln := bounds[i+1] - bounds[i]
								if i+2 == len(bounds) && !explicitLast {
									ln = 0 // "to the end"
								}
								if ln == 0 && i+2 != len(bounds) {
									continue
								}
								qfs = append(qfs, QUICFrameCrypto{Offset: declBase + bounds[i], Length: ln})
								if extras == 2 && i == 0 {
									qfs = append(qfs, QUICFramePadding{Length: 3}, QUICFramePing{})
								}
							}
							if extras == 1 {
								qfs = append(QUICFrames{QUICFramePing{}}, qfs...)
							}
							if L == 0 && explicitLast {
								continue
							}
							what := fmt.Sprintf("QUICFrames%v.BuildForDatagram(len=%d, baseOffset=%d)", qfs, L, baseOffset)
							vb9Guard(st, what, func() {
								st.cases++
								p, err := qfs.BuildForDatagram(0, hello, baseOffset)
								if err != nil {
									st.builderErrors++
									return
								}
								covered := make([]bool, L)
								if msg := vb9Check([][]byte{p}, hello, uint64(declBase)+baseOffset, covered, 0); msg != "" {
									st.fail("%s: %s", what, msg)
									return
								}
								if msg := vb9AllCovered(covered); msg != "" {
									st.fail("%s: %s", what, msg)
								}
							})
						}
					}
				}
			}
		}
	}
}

func vb9Random(st *vb9Stats, draws int) {
	for _, L := range vb9Lengths {
		hello := vb9Hello(L)
		for _, cr := range [][2]uint8{{1, 1}, {1, 2}, {1, 4}, {3, 3}, {2, 6}, {200, 255}} {
			for _, pg := range [][2]uint8{{0, 0}, {0, 3}, {2, 2}} {
				for _, pd := range [][3]int{{0, 0, 0}, {1, 1, 100}, {1, 4, 1200}, {3, 9, 40}, {200, 255, 60}} {
					for _, baseOffset := range []uint64{0, 1200} {
						qrf := &QUICRandomFrames{MinCRYPTO: cr[0], MaxCRYPTO: cr[1], MinPING: pg[0], MaxPING: pg[1], MinPADDING: uint8(pd[0]), MaxPADDING: uint8(pd[1]), Length: uint16(pd[2])}
						multi := &QUICMultiDatagramFrames{PerDatagram: []QUICRandomFrames{*qrf, {MinCRYPTO: 1, MaxCRYPTO: 2}}}
						for d := 0; d < draws; d++ {
							what := fmt.Sprintf("%+v.BuildForDatagram(len=%d, baseOffset=%d)", *qrf, L, baseOffset)
							vb9Guard(st, what, func() {
								st.cases++
								var p []byte
								var err error
								if d%3 == 2 {
									p, err = multi.BuildForDatagram(d%4, hello, baseOffset)
								} else {
									p, err = qrf.BuildForDatagram(0, hello, baseOffset)
								}
								if err != nil {
									st.builderErrors++
									return
								}
								covered := make([]bool, L)
								if msg := vb9Check([][]byte{p}, hello, baseOffset, covered, 0); msg != "" {
									st.fail("%s: %s", what, msg)
									return
								}
								if msg := vb9AllCovered(covered); msg != "" {
									st.fail("%s: %s", what, msg)
								}
								if pd[2] != 0 && len(p) < pd[2] && d%3 != 2 {
									st.fail("%s: payload is %d bytes, Length asks for at least %d", what, len(p), pd[2])
								}
							})
						}
					}
				}
			}
		}
	}
}

func vb9Flights(st *vb9Stats, draws int) {
	type rng = QUICCryptoRange
	plans := [][][]rng{
		{{{Offset: 0}}},
		{{{Offset: -365}, {Offset: 0, Length: 62}}, {{Offset: 62, Length: 1139}}, {{Offset: 1201, Length: -365}}},
		{{{Offset: -1}}, {{Offset: 0, Length: -1}}},
		{{{Offset: 0, Length: 1}}, {{Offset: 1}}},
		{{{Offset: 0, Length: 40}}, {{Offset: 30}}},                 // overlapping: still complete
		{{{Offset: 0, Length: 40}}, {{Offset: 41}}},                 // hole: must be rejected by validation
		{{{Offset: 10}}},                                            // head missing: rejected
		{{{Offset: -5000}}},                                         // out of range: error
		{{{Offset: 0, Length: 1 << 40}}},                            // too long: error
		{{{Offset: 3, Length: -3}}, {{Offset: 0, Length: 3}}, {{Offset: -3}}},
	}
	for _, L := range vb9Lengths {
		hello := vb9Hello(L)
		budgets := []InitialDatagramBudget{{MaxFrameBytes: 0}}
		for pi, plan := range plans {
			// deterministic flight
			var ff QUICFlightFrames
			var rf QUICRandomFlightFrames
			for di, dg := range plan {
				var qfs QUICFrames
				if di == 0 {
					qfs = append(qfs, QUICFramePing{})
				}
				for _, r := range dg {
					qfs = append(qfs, QUICFrameCrypto{Offset: r.Offset, Length: r.Length})
				}
				qfs = append(qfs, QUICFramePadding{Length: 2})
				ff.Datagrams = append(ff.Datagrams, qfs)
				rf.PerDatagram = append(rf.PerDatagram, QUICRandomFlightDatagram{CryptoRanges: dg, Frames: QUICRandomFrames{MinCRYPTO: uint8(1 + di), MaxCRYPTO: uint8(4 + di), MinPING: 0, MaxPING: 3, MinPADDING: 1, MaxPADDING: 3, Length: uint16(50 * di)}})
			}
			run := func(what string, build func() ([][]byte, error)) {
				vb9Guard(st, what, func() {
					st.cases++
					payloads, err := build()
					if err != nil {
						st.builderErrors++
						return
					}
					if verr := validateInitialFlight(payloads, budgets, L); verr != nil {
						st.builderErrors++ // rejected before anything is sent
						return
					}
					covered := make([]bool, L)
					if msg := vb9Check(payloads, hello, 0, covered, 0); msg != "" {
						st.fail("%s: accepted flight: %s", what, msg)
						return
					}
					if msg := vb9AllCovered(covered); msg != "" {
						st.fail("%s: accepted flight: %s", what, msg)
					}
				})
			}
			run(fmt.Sprintf("QUICFlightFrames plan#%d len=%d", pi, L), func() ([][]byte, error) { return ff.BuildFlight(hello, budgets) })
			for d := 0; d < draws; d++ {
				run(fmt.Sprintf("QUICRandomFlightFrames plan#%d len=%d", pi, L), func() ([][]byte, error) { return rf.BuildFlight(hello, budgets) })
			}
		}
	}
}

// ---------- scrambler ----------

func vb9ClientHello(order string, sniLen, echBody, tail int) []byte {
	var ext []byte
	add := func(typ uint16, body []byte) {
		ext = append(ext, byte(typ>>8), byte(typ), byte(len(body)>>8), byte(len(body)))
		ext = append(ext, body...)
	}
	for _, c := range order {
		switch c {
		case 's':
			name := bytes.Repeat([]byte("a"), sniLen)
			add(0, append([]byte{byte((sniLen + 3) >> 8), byte(sniLen + 3), 0, byte(sniLen >> 8), byte(sniLen)}, name...))
		case 'e':
			add(0xfe0d, make([]byte, echBody))
		case 'x':
			add(0x002b, []byte{2, 3, 4})
		}
	}
	if tail > 0 {
		add(0x0015, make([]byte, tail))
	}
	body := []byte{3, 3}
	body = append(body, make([]byte, 32)...)
	body = append(body, 0, 0, 2, 0x13, 0x01, 1, 0)
	body = append(body, byte(len(ext)>>8), byte(len(ext)))
	body = append(body, ext...)
	h := append([]byte{1, byte(len(body) >> 16), byte(len(body) >> 8), byte(len(body))}, body...)
	for i := 6; i < 38; i++ {
		h[i] = byte(i * 3)
	}
	return h
}

func vb9Scrambler(st *vb9Stats) {
	for _, order := range []string{"", "x", "s", "e", "se", "es", "xsxe", "exs", "sxe"} {
		for _, sniLen := range []int{1, 2, 11, 64} {
			for _, echBody := range []int{0, 1, 11, 12, 13, 40, 300} {
				for _, tail := range []int{0, 5, 1500} {
					hello := vb9ClientHello(order, sniLen, echBody, tail)
					for _, maxLen := range []int{8, 40, 100, 1200} { // (below 5 no CRYPTO frame with a 2-byte offset fits at all)
						for _, parts := range []int{1, 2, 3} {
							what := fmt.Sprintf("scrambler order=%q sniLen=%d echBody=%d tail=%d maxLen=%d writes=%d", order, sniLen, echBody, tail, maxLen, parts)
							vb9Guard(st, what, func() {
								st.cases++
								s := newInitialCryptoStream(true)
								if !s.scramble {
									return
								}
								for i := 0; i < parts; i++ {
									lo, hi := len(hello)*i/parts, len(hello)*(i+1)/parts
									if _, err := s.Write(hello[lo:hi]); err != nil {
										st.fail("%s: Write: %v", what, err)
										return
									}
									if i+1 < parts && s.HasData() {
										st.fail("%s: HasData() before the ClientHello is complete", what)
										return
									}
								}
								covered := make([]bool, len(hello))
								idle := 0
								for it := 0; it < 20000 && s.HasData(); it++ {
									f := s.PopCryptoFrame(protocol.ByteCount(maxLen))
									if f == nil {
										idle++
										if idle > 3 {
											st.fail("%s: HasData() is true but PopCryptoFrame(%d) keeps returning nil", what, maxLen)
											return
										}
										continue
									}
									idle = 0
									off := int(f.Offset)
									if off < 0 || off+len(f.Data) > len(hello) || !bytes.Equal(f.Data, hello[off:off+len(f.Data)]) {
										st.fail("%s: CRYPTO frame at offset %d (len %d) does not carry the ClientHello bytes of that offset", what, off, len(f.Data))
										return
									}
									for i := range f.Data {
										covered[off+i] = true
									}
								}
								if s.HasData() {
									st.fail("%s: still has data after 20000 pops", what)
									return
								}
								if msg := vb9AllCovered(covered); msg != "" {
									st.fail("%s: %s (HasData()=false)", what, msg)
								}
							})
						}
					}
				}
			}
		}
	}
}

func TestVerifBoundedC09(t *testing.T) {
	draws := 40
	if strings.TrimSpace(os.Getenv("VERIF_BOUND_TIER")) == "thorough" {
		draws = 1500
	}
	for _, part := range []struct {
		name string
		run  func(st *vb9Stats)
	}{
		{"quicframes", vb9QUICFrames},
		{"randomframes", func(st *vb9Stats) { vb9Random(st, draws) }},
		{"flights", func(st *vb9Stats) { vb9Flights(st, draws) }},
		{"scrambler", vb9Scrambler},
	} {
		st := &vb9Stats{}
		part.run(st)
		fmt.Printf("VERIF-BOUNDED-STAT name=%s cases=%d rejected-with-error=%d\n", part.name, st.cases, st.builderErrors)
		for _, f := range st.fails {
			fmt.Printf("VERIF-BOUNDED-FAIL name=%s %s\n", part.name, f)
		}
		if len(st.fails) > 0 {
			t.Fail()
		}
	}
}
