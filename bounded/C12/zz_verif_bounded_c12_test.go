package quic

// Bounded stand-in for C12 (labelled "bounded", never counted as proved).
//
// It stands in for the wiring that contracts cannot reach: newUClientConnection (a 200-line function literal with the
// whole connection as its state) must hand the limits computed by QUICSpec.configEnforcingAdvertisedLimits (proved:
// every enforced limit >= the advertised one) to preSetup's flow controllers and streams map. The harness dials an
// in-tree server over loopback with built-in fingerprints; the server uses exactly what the ClientHello advertised:
//   - writes 2 MiB on one unidirectional stream while the client application does not read (stream + connection window)
//   - opens min(advertised initial_max_streams_uni, 120) unidirectional streams (stream count)
// A local FLOW_CONTROL_ERROR / STREAM_LIMIT_ERROR on the client is a violation. Injected with `go test -overlay`.
//
// Bound: fingerprints {Chrome_115, Firefox_116}, default Config and a Config with small explicit windows/limits.

import (
	"context"
	"errors"
	"fmt"
	"net"
	"testing"
	"time"

	"github.com/refraction-networking/uquic/internal/qerr"
	"github.com/refraction-networking/uquic/internal/testdata"
	tls "github.com/refraction-networking/utls"
)

func vb12Run(id QUICID, clientConf *Config, serverAction func(conn *Conn) error) string {
	serverTLS := testdata.GetTLSConfig()
	serverTLS.NextProtos = []string{"h3"}
	ln, err := ListenAddr("127.0.0.1:0", serverTLS, &Config{MaxIncomingStreams: 1000, MaxIncomingUniStreams: 1000})
	if err != nil {
		return "SKIP listen: " + err.Error()
	}
	defer ln.Close()
	serverErr := make(chan error, 1)
	go func() {
		conn, err := ln.Accept(context.Background())
		if err != nil {
			serverErr <- err
			return
		}
		serverErr <- serverAction(conn)
	}()
	spec, err := QUICID2Spec(id)
	if err != nil {
		return "SKIP spec: " + err.Error()
	}
	udp, err := net.ListenUDP("udp", &net.UDPAddr{IP: net.IPv4(127, 0, 0, 1)})
	if err != nil {
		return "SKIP udp: " + err.Error()
	}
	tr := &UTransport{Transport: &Transport{Conn: udp}, QUICSpec: &spec}
	defer tr.Transport.Close()
	ctx, cancel := context.WithTimeout(context.Background(), 10*time.Second)
	defer cancel()
	conn, err := tr.Dial(ctx, ln.Addr(), &tls.Config{InsecureSkipVerify: true, NextProtos: []string{"h3"}, ServerName: "localhost"}, clientConf)
	if err != nil {
		return "SKIP dial: " + err.Error()
	}
	defer conn.CloseWithError(0, "")
	select {
	case <-conn.Context().Done():
		cause := context.Cause(conn.Context())
		var terr *qerr.TransportError
		if errors.As(cause, &terr) && !terr.Remote {
			return fmt.Sprintf("client raised a local %v against a peer that stayed within the advertised limits", cause)
		}
		return ""
	case <-serverErr:
		// give the client a moment to process what the server sent
		select {
		case <-conn.Context().Done():
			cause := context.Cause(conn.Context())
			var terr *qerr.TransportError
			if errors.As(cause, &terr) && !terr.Remote {
				return fmt.Sprintf("client raised a local %v against a peer that stayed within the advertised limits", cause)
			}
		case <-time.After(300 * time.Millisecond):
		}
		return ""
	case <-time.After(8 * time.Second):
		return ""
	}
}

func TestVerifBoundedC12(t *testing.T) {
	cases, skipped := 0, 0
	var fails []string
	for _, id := range []QUICID{QUICChrome_115, QUICFirefox_116} {
		for ci, conf := range []*Config{{}, {InitialStreamReceiveWindow: 64 << 10, InitialConnectionReceiveWindow: 96 << 10, MaxIncomingUniStreams: 3, MaxIncomingStreams: 3}} {
			actions := map[string]func(conn *Conn) error{
				"2MiB-on-one-uni-stream": func(conn *Conn) error {
					str, err := conn.OpenUniStream()
					if err != nil {
						return err
					}
					_, err = str.Write(make([]byte, 2<<20))
					return err
				},
				"uni-streams-up-to-advertised-count": func(conn *Conn) error {
					for i := 0; i < 120; i++ {
						ctx, cancel := context.WithTimeout(context.Background(), 200*time.Millisecond)
						str, err := conn.OpenUniStreamSync(ctx)
						cancel()
						if err != nil {
							return nil // blocked at the peer's (advertised) limit: fine
						}
						if _, err := str.Write([]byte{1}); err != nil {
							return err
						}
					}
					return nil
				},
			}
			for name, act := range actions {
				cases++
				msg := vb12Run(id, conf.Clone(), act)
				if len(msg) > 4 && msg[:4] == "SKIP" {
					skipped++
					continue
				}
				if msg != "" {
					fails = append(fails, fmt.Sprintf("fingerprint=%v config#%d action=%s: %s", id, ci, name, msg))
				}
			}
		}
	}
	fmt.Printf("VERIF-BOUNDED-STAT name=advertised-limits cases=%d skipped=%d\n", cases, skipped)
	for _, f := range fails {
		fmt.Printf("VERIF-BOUNDED-FAIL name=advertised-limits %s\n", f)
	}
	if len(fails) > 0 {
		t.Fail()
	}
}
