package quic

// Replay for the C14 finding "datagrams whose packets could not be decrypted yet are credited to the anti-amplification
// budget a second time when they are taken out of the undecryptable-packet queue": Conn.run() re-processed queued packets
// through handleOnePacket, whose first statement is sentPacketHandler.ReceivedBytes(rp.Size(), …). A server that has not
// validated the client's address may send 3x the bytes RECEIVED (RFC 9000 8.1); with up to 32 queued packets
// (protocol.MaxUndecryptablePackets), each re-processed at every new set of read keys, the budget grew to several times that
// without a single further byte arriving.
// Flow: as TestConnectionPacketBuffering — two Handshake packets arrive before the keys (queued), a third one makes the keys
// available, the two are re-processed. The handler below counts what is credited.
// Run: cp to /repo/zz_c14_replay_test.go && go test -vet=off -run TestVerifC14RequeuedPacketsCreditedOnce .

import (
	"testing"
	"time"

	"github.com/refraction-networking/uquic/internal/ackhandler"
	"github.com/refraction-networking/uquic/internal/handshake"
	"github.com/refraction-networking/uquic/internal/mocks"
	"github.com/refraction-networking/uquic/internal/monotime"
	"github.com/refraction-networking/uquic/internal/protocol"
	"github.com/refraction-networking/uquic/internal/synctest"
	"github.com/refraction-networking/uquic/internal/wire"

	"github.com/stretchr/testify/require"
	"go.uber.org/mock/gomock"
)

type verifC14CountingHandler struct {
	ackhandler.SentPacketHandler
	credited protocol.ByteCount
}

func (h *verifC14CountingHandler) ReceivedBytes(n protocol.ByteCount, t monotime.Time) {
	h.credited += n
	h.SentPacketHandler.ReceivedBytes(n, t)
}

func TestVerifC14RequeuedPacketsCreditedOnce(t *testing.T) {
	synctest.Test(t, func(t *testing.T) {
		mockCtrl := gomock.NewController(t)
		unpacker := NewMockUnpacker(mockCtrl)
		cs := mocks.NewMockCryptoSetup(mockCtrl)
		counting := &verifC14CountingHandler{}
		tc := newServerTestConnection(t,
			mockCtrl,
			nil,
			false,
			connectionOptUnpacker(unpacker),
			connectionOptCryptoSetup(cs),
			func(c *Conn) {
				counting.SentPacketHandler = c.sentPacketHandler
				c.sentPacketHandler = counting
			},
		)
		cs.EXPECT().DiscardInitialKeys().AnyTimes()

		hdr1 := wire.ExtendedHeader{
			Header: wire.Header{
				Type:             protocol.PacketTypeHandshake,
				DestConnectionID: tc.srcConnID,
				SrcConnectionID:  tc.destConnID,
				Length:           8,
				Version:          protocol.Version1,
			},
			PacketNumberLen: protocol.PacketNumberLen1,
			PacketNumber:    1,
		}
		hdr2 := hdr1
		hdr2.PacketNumber = 2
		hdr3 := hdr1
		hdr3.PacketNumber = 3
		hdrs := map[string]*wire.ExtendedHeader{"packet1": &hdr1, "packet2": &hdr2, "packet3": &hdr3}

		cs.EXPECT().StartHandshake(gomock.Any())
		cs.EXPECT().NextEvent().Return(handshake.Event{Kind: handshake.EventNoEvent})
		unpacker.EXPECT().UnpackLongHeader(gomock.Any(), gomock.Any()).Return(nil, handshake.ErrKeysNotYetAvailable).Times(2)

		errChan := make(chan error, 1)
		go func() { errChan <- tc.conn.run() }()

		packet1 := getLongHeaderPacket(t, tc.remoteAddr, &hdr1, []byte("packet1"))
		packet2 := getLongHeaderPacket(t, tc.remoteAddr, &hdr2, []byte("packet2"))
		packet3 := getLongHeaderPacket(t, tc.remoteAddr, &hdr3, []byte("packet3"))
		received := packet1.Size() + packet2.Size() + packet3.Size()

		tc.conn.handlePacket(packet1)
		tc.conn.handlePacket(packet2)
		synctest.Wait()
		require.Equal(t, packet1.Size()+packet2.Size(), counting.credited, "two datagrams arrived, both queued as undecryptable")

		tc.packer.EXPECT().PackCoalescedPacket(gomock.Any(), gomock.Any(), gomock.Any(), gomock.Any()).Return(nil, nil).AnyTimes()
		cs.EXPECT().NextEvent().Return(handshake.Event{Kind: handshake.EventReceivedReadKeys})
		cs.EXPECT().NextEvent().Return(handshake.Event{Kind: handshake.EventNoEvent})
		var processed []string
		gomock.InOrder(
			unpacker.EXPECT().UnpackLongHeader(gomock.Any(), gomock.Any()).DoAndReturn(
				func(hdr *wire.Header, data []byte) (*unpackedPacket, error) {
					id := string(data[len(data)-7:])
					processed = append(processed, id)
					cf := &wire.CryptoFrame{Data: []byte("foobar")}
					b, _ := cf.Append(nil, protocol.Version1)
					return &unpackedPacket{hdr: hdrs[id], encryptionLevel: protocol.EncryptionHandshake, data: b}, nil
				},
			),
			cs.EXPECT().HandleMessage(gomock.Any(), gomock.Any()),
			unpacker.EXPECT().UnpackLongHeader(gomock.Any(), gomock.Any()).DoAndReturn(
				func(hdr *wire.Header, data []byte) (*unpackedPacket, error) {
					id := string(data[len(data)-7:])
					processed = append(processed, id)
					return &unpackedPacket{hdr: hdrs[id], encryptionLevel: protocol.EncryptionHandshake, data: []byte{0}}, nil
				},
			).Times(2),
		)
		tc.conn.handlePacket(packet3)
		synctest.Wait()
		require.Equal(t, []string{"packet3", "packet1", "packet2"}, processed)

		// three datagrams arrived; the anti-amplification budget must have been credited with exactly their bytes
		if counting.credited != received {
			t.Errorf("bytes credited to the anti-amplification budget (%d) differ from the bytes received (%d): queued packets were credited again when re-processed",
				counting.credited, received)
		}

		tc.connRunner.EXPECT().Remove(gomock.Any()).AnyTimes()
		cs.EXPECT().Close()
		tc.conn.destroy(nil)
		synctest.Wait()
		select {
		case err := <-errChan:
			require.NoError(t, err)
		case <-time.After(time.Second):
			t.Fatal("timeout")
		}
	})
}
