package handshake

import (
	"encoding/asn1"
	"testing"
)

// A token that authenticates under the server's key but carries a connection ID longer than 20 bytes:
// DecodeToken hands it to protocol.ParseConnectionID, which panics.
func TestVerifFindingTokenConnIDLength(t *testing.T) {
	var key TokenProtectorKey
	g := NewTokenGenerator(key)
	data, err := asn1.Marshal(token{IsRetryToken: true, RemoteAddr: []byte{0, 127, 0, 0, 1}, OriginalDestConnectionID: make([]byte, 21), RetrySrcConnectionID: []byte{1, 2, 3, 4}})
	if err != nil {
		t.Fatal(err)
	}
	enc, err := g.tokenProtector.NewToken(data)
	if err != nil {
		t.Fatal(err)
	}
	defer func() {
		if r := recover(); r != nil {
			t.Fatalf("DecodeToken panicked on an authenticated token: %v", r)
		}
	}()
	tok, err := g.DecodeToken(enc)
	t.Logf("token=%v err=%v", tok, err)
}
