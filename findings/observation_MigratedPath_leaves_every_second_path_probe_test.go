package ackhandler

import (
	"testing"
	"time"

	"github.com/refraction-networking/uquic/internal/monotime"
	"github.com/refraction-networking/uquic/internal/protocol"
	"github.com/refraction-networking/uquic/internal/utils"
)

func TestZZMigratedPathRemovesAllPathProbes(t *testing.T) {
	rttStats := utils.NewRTTStats()
	rttStats.UpdateRTT(10*time.Millisecond, 0)
	sph := NewSentPacketHandler(0, 1200, rttStats, &utils.ConnectionStats{}, true, false, nil, protocol.PerspectiveClient, nil, utils.DefaultLogger)
	sph.DropPackets(protocol.EncryptionInitial, monotime.Now())
	sph.DropPackets(protocol.EncryptionHandshake, monotime.Now())
	var packets packetTracker
	now := monotime.Now()
	for i := 0; i < 3; i++ {
		pn := sph.PopPacketNumber(protocol.Encryption1RTT)
		sph.SentPacket(now, pn, protocol.InvalidPacketNumber, nil, []Frame{packets.NewPingFrame(pn)}, protocol.Encryption1RTT, protocol.ECNNon, 1200, false, true)
	}
	h := sph.(*sentPacketHandler)
	if n := len(h.appDataPackets.history.pathProbePackets); n != 3 {
		t.Fatalf("setup: %d probes", n)
	}
	sph.MigratedPath(now, 1200)
	if n := len(h.appDataPackets.history.pathProbePackets); n != 0 {
		t.Fatalf("after MigratedPath %d path probe packet(s) are still tracked: %+v", n, h.appDataPackets.history.pathProbePackets)
	}
}
