package quic

// Replay for the C09 finding "(*initialCryptoStream).Write$1/post:order": the comparator passed to slices.SortFunc does
// not handle an invalid (unset) cut on its right-hand side, so a ClientHello that carries an ECH extension but no usable
// SNI cut leaves the unset cut in front; HasData() then reports false forever and the ClientHello is never sent.
// Run: cp this file to /repo/zz_c09_replay_test.go && GOEXPERIMENT=synctest go test -vet=off -run TestVerifC09EchWithoutSNI .

import (
	"testing"
)

func verifC09ClientHello(withSNI bool) []byte {
	var ext []byte
	if withSNI {
		name := []byte("example.com")
		sni := []byte{0, 0, 0, byte(len(name) + 5), 0, byte(len(name) + 3), 0, 0, byte(len(name))}
		ext = append(ext, append(sni, name...)...)
	}
	echBody := make([]byte, 40)
	ext = append(ext, 0xfe, 0x0d, 0, byte(len(echBody)))
	ext = append(ext, echBody...)
	body := []byte{3, 3}
	body = append(body, make([]byte, 32)...) // random
	body = append(body, 0)                   // session id
	body = append(body, 0, 2, 0x13, 0x01)    // cipher suites
	body = append(body, 1, 0)                // compression
	body = append(body, byte(len(ext)>>8), byte(len(ext)))
	body = append(body, ext...)
	return append([]byte{1, byte(len(body) >> 16), byte(len(body) >> 8), byte(len(body))}, body...)
}

func TestVerifC09EchWithoutSNI(t *testing.T) {
	for _, withSNI := range []bool{true, false} {
		s := newInitialCryptoStream(true)
		if !s.scramble {
			t.Skip("scrambling disabled by environment")
		}
		ch := verifC09ClientHello(withSNI)
		if _, err := s.Write(ch); err != nil {
			t.Fatal(err)
		}
		covered := make([]bool, len(ch))
		for i := 0; i < 100 && s.HasData(); i++ {
			f := s.PopCryptoFrame(1000)
			if f == nil {
				break
			}
			for j := range f.Data {
				if f.Data[j] != ch[int(f.Offset)+j] {
					t.Fatalf("withSNI=%v: wrong byte at %d", withSNI, int(f.Offset)+j)
				}
				covered[int(f.Offset)+j] = true
			}
		}
		for i, c := range covered {
			if !c {
				t.Fatalf("VERIF-REPLAY-CONFIRMED withSNI=%v: ClientHello byte %d of %d never put on the wire (HasData()=%v)", withSNI, i, len(ch), s.HasData())
			}
		}
	}
}
