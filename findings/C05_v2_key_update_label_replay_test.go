package handshake

// Replay for the C05 finding "handshake.(*updatableAEAD).getNextTrafficSecret/post:key-update-label-of-the-version":
// in a QUIC v2 connection the next generation of 1-RTT keys was derived with the QUIC v1 label "quic ku"; RFC 9369
// section 3.3.2 changes the key-update label to "quicv2 ku". Both ends of a uquic<->uquic connection agreed (on the
// wrong keys), so no round-trip test notices; a conformant v2 peer cannot open the first packet after a key update.
// The reference below derives the next secret exactly as the RFCs say, with the package's own HKDF-Expand-Label and
// AEAD construction (which do use the v2 labels for key, iv and hp).
// Run: cp to /repo/internal/handshake/zz_c05_replay_test.go && go test -vet=off -run TestVerifC05KeyUpdateLabel ./internal/handshake/

import (
	"testing"

	"github.com/refraction-networking/uquic/internal/protocol"
	"github.com/refraction-networking/uquic/internal/utils"
)

func TestVerifC05KeyUpdateLabel(t *testing.T) {
	for _, tc := range []struct {
		name    string
		version protocol.Version
		label   string
	}{
		{"v1", protocol.Version1, "quic ku"},
		{"v2", protocol.Version2, "quicv2 ku"},
	} {
		t.Run(tc.name, func(t *testing.T) {
			for _, cs := range cipherSuites {
				secret := make([]byte, cs.Hash.Size())
				for i := range secret {
					secret[i] = byte(i + 1)
				}
				sender := newUpdatableAEAD(utils.NewRTTStats(), nil, utils.DefaultLogger, tc.version)
				sender.SetWriteKey(cs, secret)
				sender.SetReadKey(cs, secret)
				// the sender initiates a key update: from now on it seals with the next generation of keys
				sender.rollKeys()

				// what a conformant peer computes for that generation
				next := hkdfExpandLabel(cs.Hash, secret, []byte{}, tc.label, cs.Hash.Size())
				peer := createAEAD(cs, next, tc.version)

				ad := []byte("header")
				msg := []byte("payload after the key update")
				sealed := sender.Seal(nil, msg, 0x1337, ad)
				nonce := make([]byte, 8)
				nonce[6], nonce[7] = 0x13, 0x37
				opened, err := peer.Open(nil, nonce, sealed, ad)
				if err != nil {
					t.Errorf("cipher suite %#x: a peer deriving the next secret with %q cannot open the first packet after the key update: %v", cs.ID, tc.label, err)
					continue
				}
				if string(opened) != string(msg) {
					t.Errorf("cipher suite %#x: opened to different plaintext", cs.ID)
				}
			}
		})
	}
}
