package quic

import (
	"testing"

	"github.com/refraction-networking/uquic/internal/protocol"
	"github.com/refraction-networking/uquic/internal/wire"
)

// A peer that stays within the active_connection_id_limit the spec-driven client advertised (8, as the built-in
// Firefox parrots do) must not be answered with CONNECTION_ID_LIMIT_ERROR.
func TestVerifReplayConnIDLimitAdvertised(t *testing.T) {
	m := newConnIDManager(protocol.ParseConnectionID([]byte{1, 2, 3, 4}), func(protocol.StatelessResetToken) {}, func(protocol.StatelessResetToken) {}, func(wire.Frame) {})
	m.SetConnectionIDLimit(8) // what u_connection.go passes: the advertised transport parameter
	for seq := uint64(1); seq <= 7; seq++ { // with the initial ID: 8 unretired connection IDs
		err := m.Add(&wire.NewConnectionIDFrame{
			SequenceNumber:      seq,
			ConnectionID:        protocol.ParseConnectionID([]byte{byte(seq), 2, 3, 4}),
			StatelessResetToken: protocol.StatelessResetToken{byte(seq)},
		})
		if err != nil {
			t.Fatalf("NEW_CONNECTION_ID seq %d (peer holds %d of the 8 advertised): %v", seq, seq+1, err)
		}
	}
}
