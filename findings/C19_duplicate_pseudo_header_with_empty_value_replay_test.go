package http3

// Replay for the C19 finding "http3.parseHeaders/body:loop0.pseudo-header-accepted-once": duplicate detection for pseudo-header
// fields compared the value recorded so far with "", so a pseudo-header field that appears twice, the first time with an empty
// value, was accepted and the second value silently won (":path: " then ":path: /admin"; ":status: " then ":status: 200").
// RFC 9114 4.3: the same pseudo-header field name appearing more than once makes the message malformed; the property
// demands that pseudo-header fields of an accepted section are unique.
// Run: cp to /repo/http3/zz_c19_replay_test.go && go test -vet=off -run TestVerifC19DuplicatePseudoHeader ./http3/

import (
	"io"
	"math"
	"net/http"
	"testing"

	"github.com/quic-go/qpack"
)

func verifC19Decode(fields []qpack.HeaderField) qpack.DecodeFunc {
	i := 0
	return func() (qpack.HeaderField, error) {
		if i >= len(fields) {
			return qpack.HeaderField{}, io.EOF
		}
		f := fields[i]
		i++
		return f, nil
	}
}

func TestVerifC19DuplicatePseudoHeader(t *testing.T) {
	for _, name := range []string{":path", ":method", ":authority", ":scheme", ":protocol"} {
		fields := []qpack.HeaderField{{Name: name, Value: ""}}
		for _, f := range []qpack.HeaderField{
			{Name: ":method", Value: http.MethodConnect},
			{Name: ":scheme", Value: "https"},
			{Name: ":authority", Value: "example.com"},
			{Name: ":path", Value: "/admin"},
			{Name: ":protocol", Value: "webtransport"},
		} {
			fields = append(fields, f)
		}
		// the section now carries `name` twice: once with an empty value, once with a real one
		if req, err := requestFromHeaders(verifC19Decode(fields), math.MaxInt, nil); err == nil {
			t.Errorf("request section with %s twice (first occurrence empty) was accepted: %s %s", name, req.Method, req.URL)
		}
	}
	rsp := &http.Response{}
	err := updateResponseFromHeaders(rsp, verifC19Decode([]qpack.HeaderField{{Name: ":status", Value: ""}, {Name: ":status", Value: "200"}}), math.MaxInt, nil)
	if err == nil {
		t.Errorf("response section with :status twice (first occurrence empty) was accepted with status %d", rsp.StatusCode)
	}
}
