package http3

// Replay for the C18 finding "http3.(*responseWriter).flushTrailers/pre:(*Logger).Debug" and
// ".declareTrailer/pre:(*Logger).Debug": with Server.Logger unset (nil, the documented default) the response writer
// calls (*slog.Logger).Debug on a nil logger
//   - when a handler declares a forbidden trailer name (header "Trailer: Content-Length"), and
//   - when writing the trailers fails after the handler returned (peer reset / connection lost),
// both on the server's request goroutine outside the handler's recover(): the process panics.
// Run: cp to /repo/http3/zz_c18_replay_test.go && go test -vet=off -run TestVerifC18NilLogger ./http3/

import (
	"errors"
	"io"
	"net/http"
	"testing"

	"github.com/refraction-networking/uquic"
	"go.uber.org/mock/gomock"
)

func verifC18Writer(t *testing.T, writeErr error) *responseWriter {
	mockCtrl := gomock.NewController(t)
	str := NewMockDatagramStream(mockCtrl)
	str.EXPECT().StreamID().Return(quic.StreamID(42)).AnyTimes()
	str.EXPECT().Write(gomock.Any()).DoAndReturn(func(b []byte) (int, error) {
		if writeErr != nil {
			return 0, writeErr
		}
		return len(b), nil
	}).AnyTimes()
	str.EXPECT().SetReadDeadline(gomock.Any()).Return(nil).AnyTimes()
	str.EXPECT().SetWriteDeadline(gomock.Any()).Return(nil).AnyTimes()
	// logger == nil: what newRawServerConn passes on when Server.Logger is left unset
	return newResponseWriter(newStream(str, nil, nil, func(io.Reader, *headersFrame) error { return nil }, nil), nil, false, nil)
}

func TestVerifC18NilLogger(t *testing.T) {
	t.Run("forbidden trailer name", func(t *testing.T) {
		defer func() {
			if r := recover(); r != nil {
				t.Fatalf("VERIF-REPLAY-CONFIRMED panic with Server.Logger unset: %v", r)
			}
		}()
		rw := verifC18Writer(t, nil)
		rw.Header().Set("Trailer", "Content-Length") // a handler announcing a forbidden trailer name
		rw.WriteHeader(200)
		rw.Flush()
		rw.flushTrailers()
	})
	t.Run("stream error while writing trailers", func(t *testing.T) {
		defer func() {
			if r := recover(); r != nil {
				t.Fatalf("VERIF-REPLAY-CONFIRMED panic with Server.Logger unset: %v", r)
			}
		}()
		rw := verifC18Writer(t, errors.New("stream reset by peer"))
		rw.Header().Set(http.TrailerPrefix+"X-Checksum", "abc")
		rw.headerWritten = true // the header section already went out before the peer reset the stream
		rw.headerComplete = true
		rw.flushTrailers()
	})
}
