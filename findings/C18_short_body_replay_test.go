package http3

// Replay for the open C18 finding "http3.(*body).Read/post:short-body-reported": a message that declares
// Content-Length 10 but carries 6 bytes of DATA and then ends is handed to the reader as 6 bytes followed by a clean
// io.EOF: the truncation is silent (RFC 9114 section 4.1.2 calls such a message malformed). The same body type backs
// the server's request body. Not repaired here: a fix has to exempt responses to HEAD and 304 responses, whose
// Content-Length legitimately describes a body that is not sent, and the body is built without knowing the method.
// Run: cp to /repo/http3/zz_c18_short_body_test.go && go test -vet=off -run TestVerifC18ShortBody ./http3/

import (
	"bytes"
	"io"
	"testing"

	"github.com/refraction-networking/uquic"
	"go.uber.org/mock/gomock"
)

func TestVerifC18ShortBody(t *testing.T) {
	var buf bytes.Buffer
	buf.Write(getDataFrame([]byte("foobar"))) // 6 bytes, then the stream ends
	mockCtrl := gomock.NewController(t)
	str := NewMockDatagramStream(mockCtrl)
	str.EXPECT().StreamID().Return(quic.StreamID(42)).AnyTimes()
	str.EXPECT().CancelRead(gomock.Any()).AnyTimes()
	str.EXPECT().CancelWrite(gomock.Any()).AnyTimes()
	str.EXPECT().Read(gomock.Any()).DoAndReturn(buf.Read).AnyTimes()
	rb := newResponseBody(newStream(str, nil, nil, func(io.Reader, *headersFrame) error { return nil }, nil), 10, make(chan struct{}))
	data, err := io.ReadAll(rb)
	if err == nil && len(data) < 10 {
		t.Fatalf("VERIF-REPLAY-CONFIRMED declared Content-Length 10, body delivered as %d bytes with a clean EOF (silently truncated)", len(data))
	}
}
