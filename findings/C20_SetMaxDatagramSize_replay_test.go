package congestion

import (
	"testing"

	"github.com/refraction-networking/uquic/internal/monotime"
	"github.com/refraction-networking/uquic/internal/protocol"
	"github.com/refraction-networking/uquic/internal/utils"
)

func TestVerifReplaySetMaxDatagramSize(t *testing.T) {
	var rtt utils.RTTStats
	c := NewCubicSender(DefaultClock{}, &rtt, &utils.ConnectionStats{}, 1200, true, nil)
	pn := protocol.PacketNumber(1)
	send := func() protocol.PacketNumber {
		c.OnPacketSent(monotime.Now(), 0, pn, 1200, true)
		pn++
		return pn - 1
	}
	// collapse to the floor
	for i := 0; i < 40 && c.GetCongestionWindow() > c.minCongestionWindow(); i++ {
		c.OnCongestionEvent(send(), 1200, 0)
	}
	// grow by one packet in congestion avoidance (acks of packets sent after the cut-back), then one more loss
	for i := 0; i < 10 && c.GetCongestionWindow() < 3600; i++ {
		p := send()
		c.OnPacketAcked(p, 1200, c.GetCongestionWindow(), monotime.Now())
	}
	c.OnCongestionEvent(send(), 1200, 0)
	t.Logf("cwnd=%d min=%d", c.GetCongestionWindow(), c.minCongestionWindow())
	c.SetMaxDatagramSize(1452)
	if c.GetCongestionWindow() < c.minCongestionWindow() {
		t.Fatalf("cwnd %d below two full-size packets %d after MTU increase", c.GetCongestionWindow(), c.minCongestionWindow())
	}
}
