package wire

// Replay for the C11 finding "wire.(*TransportParameters).PopulateFromUQUIC/safe:assert:*": a raw transport parameter
// that reuses a standard ID made the dial panic (interface conversion), instead of being sent verbatim.
// Run: cp to /repo/internal/wire/zz_c11_replay_test.go && go test -vet=off -run TestVerifC11FakeStandardID ./internal/wire/

import (
	"testing"

	tls "github.com/refraction-networking/utls"
)

func TestVerifC11FakeStandardID(t *testing.T) {
	defer func() {
		if r := recover(); r != nil {
			t.Fatalf("VERIF-REPLAY-CONFIRMED PopulateFromUQUIC panicked: %v", r)
		}
	}()
	tp := &TransportParameters{}
	tp.PopulateFromUQUIC(tls.TransportParameters{&tls.FakeQUICTransportParameter{Id: 1, Val: []byte{0x40, 0x64}}, tls.InitialMaxData(5)})
	if tp.InitialMaxData != 5 || len(tp.ClientOverride) == 0 {
		t.Fatal("typed parameters must still be read back and the raw one kept on the wire")
	}
}
