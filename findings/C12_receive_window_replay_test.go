package quic

// Replay for C12: a spec-driven client advertises the spec's flow-control limits but enforces Config's.
// The in-tree server below is told the client's advertised initial_max_stream_data_uni / initial_max_data (from the
// ClientHello) and simply uses them: it writes 2 MiB on one unidirectional stream while the client application does
// not read. The Chrome fingerprints advertise 6 MiB per stream and 15 MiB per connection, so the peer is within limits.
// Run: cp to /repo/zz_c12_window_replay_test.go && GOEXPERIMENT=synctest go test -vet=off -run TestVerifC12ReceiveWindow .

import (
	"context"
	"errors"
	"net"
	"testing"
	"time"

	"github.com/refraction-networking/uquic/internal/qerr"
	"github.com/refraction-networking/uquic/internal/testdata"
	tls "github.com/refraction-networking/utls"
)

func TestVerifC12ReceiveWindow(t *testing.T) {
	serverTLS := testdata.GetTLSConfig()
	serverTLS.NextProtos = []string{"h3"}
	ln, err := ListenAddr("127.0.0.1:0", serverTLS, &Config{})
	if err != nil {
		t.Fatal(err)
	}
	defer ln.Close()
	serverErr := make(chan error, 1)
	go func() {
		conn, err := ln.Accept(context.Background())
		if err != nil {
			serverErr <- err
			return
		}
		str, err := conn.OpenUniStream()
		if err != nil {
			serverErr <- err
			return
		}
		// 2 MiB: far below the advertised 6 MiB stream / 15 MiB connection limits
		_, err = str.Write(make([]byte, 2<<20))
		serverErr <- err
	}()

	spec, err := QUICID2Spec(QUICChrome_115)
	if err != nil {
		t.Fatal(err)
	}
	udp, err := net.ListenUDP("udp", &net.UDPAddr{IP: net.IPv4(127, 0, 0, 1)})
	if err != nil {
		t.Fatal(err)
	}
	tr := &UTransport{Transport: &Transport{Conn: udp}, QUICSpec: &spec}
	defer tr.Transport.Close()
	ctx, cancel := context.WithTimeout(context.Background(), 10*time.Second)
	defer cancel()
	conn, err := tr.Dial(ctx, ln.Addr(), &tls.Config{InsecureSkipVerify: true, NextProtos: []string{"h3"}, ServerName: "localhost"}, &Config{})
	if err != nil {
		t.Fatalf("dial: %v", err)
	}
	// the application is slow: it does not accept / read the stream
	select {
	case <-conn.Context().Done():
		cause := context.Cause(conn.Context())
		var terr *qerr.TransportError
		if errors.As(cause, &terr) && !terr.Remote && terr.ErrorCode == qerr.FlowControlError {
			t.Fatalf("VERIF-REPLAY-CONFIRMED client raised a local FLOW_CONTROL_ERROR against a peer that stayed within the advertised limits: %v", cause)
		}
		t.Fatalf("connection closed: %v", cause)
	case err := <-serverErr:
		t.Logf("server finished writing: %v", err)
	case <-time.After(5 * time.Second):
		t.Log("no error within 5s (peer blocked on flow control at the limit the client enforces)")
	}
}
