#!/bin/bash
# usage: tools/run_all_quick.sh [PID...]  -- runs quick checks sequentially against /repo; prints summary lines
cd /verif
PIDS="$@"; [ -z "$PIDS" ] && PIDS=$(jq -r '.checks[].property_id' MANIFEST.json)
for p in $PIDS; do
  s=$(date +%s); ./check $p quick > /tmp/allquick_$p.log 2>&1; rc=$?
  e=$(date +%s)
  echo "$p exit=$rc $((e-s))s $(grep -cE '^VIOLATION' /tmp/allquick_$p.log) viol $(grep -cE '^UNDECIDED' /tmp/allquick_$p.log) undecided $(grep -E '^KNOWN' /tmp/allquick_$p.log | cut -c1-80)"
done
echo ALLDONE
