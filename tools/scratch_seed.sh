#!/bin/bash
# usage: tools/scratch_seed.sh <seed-dir-name>...   (e.g. C04-A)
# Applies a seeded change to a scratch copy of /repo (never /repo itself), runs the property's quick check against the
# copy with all outputs redirected to /tmp/verif_scratch_out, and prints the verdict lines plus replay status.
cd /verif
S=/tmp/verif_scratch_repo; O=/tmp/verif_scratch_out
for seed in "$@"; do
  pid=${seed%%-*}
  rm -rf $S $O; mkdir -p $S $O
  (cd /repo && git archive HEAD | tar -x -C $S)
  (cd $S && patch -s -p1 < /verif/seeded/$seed/patch.diff) || { echo "$seed patch failed"; continue; }
  VERIF_REPO=$S VERIF_OUT_ROOT=$O ./bin/govc check $pid quick > $O/log 2>&1; rc=$?
  grep -E "^VIOLATION|^UNDECIDED" $O/log | cut -c1-220
  for f in $O/replays/$pid/*.json; do
    [ -f "$f" ] && python3 - "$f" "$seed" <<'PY'
import json,sys
d=json.load(open(sys.argv[1])); r=d.get("replay") or {}
print(f"  {sys.argv[2]}\t{d.get('obligation')}\t{d.get('answer')}\t{r.get('status')}\t{(r.get('reason') or '')[:140]}")
PY
  done
  echo "$seed exit=$rc"
done
rm -rf $S
