#!/bin/sh
# usage: tools/try_seed.sh <PID> <patch file>   -- applies patch to /repo, runs quick check, reverts
PID=$1; PATCH=$2
git -C /repo apply "$PATCH" || exit 2
./check $PID quick > /tmp/try_seed.out 2>&1; rc=$?
git -C /repo checkout -- . 
grep -E "VIOLATION|UNDECIDED|KNOWN|property=" /tmp/try_seed.out | head -${3:-12}
echo "exit=$rc"
