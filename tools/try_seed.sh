#!/bin/sh
# usage: tools/try_seed.sh <PID> <patch file>   -- applies patch to /repo, runs quick check, reverts
PID=$1; PATCH=$2
git -C /repo apply "$PATCH" || exit 2
cp evidence/$PID.json /tmp/try_seed_evidence.json 2>/dev/null
./check $PID quick > /tmp/try_seed.out 2>&1; rc=$?
git -C /repo checkout -- . 
cp /tmp/try_seed_evidence.json evidence/$PID.json 2>/dev/null; rm -f /tmp/try_seed_evidence.json
grep -E "VIOLATION|UNDECIDED|KNOWN|property=" /tmp/try_seed.out | head -${3:-12}
echo "exit=$rc"
