#!/bin/bash
# Must-fail corpus: every kept seeded change has to be reported by the obligation recorded in seeded/EXPECTED.tsv
# (and the three documented misses have to stay quiet: a check that starts "catching" them would be guessing).
# Run after every engine or contract change:  tools/selftest.sh
cd /verif
tools/run_seeds.sh > /tmp/selftest_run.log 2>&1
python3 - <<'PY'
import sys
exp={}
for l in open('/verif/seeded/EXPECTED.tsv'):
    p=l.rstrip('\n').split('\t')
    if len(p)>=2: exp[p[0]]=p[1]
bad=0
for l in open('/verif/seeded/RESULTS.tsv'):
    p=l.rstrip('\n').split('\t')
    name=p[0]; got=' '.join(p[1:])
    want=exp.get(name,'')
    if want=='MISS':
        ok='exit=0' in got
    else:
        ok=('exit=1' in got) and (want in got)
    print(('ok   ' if ok else 'FAIL '), name, '| expected:', want, '| got:', got[:160])
    bad+= (not ok)
print('selftest:', 'all seeded changes behave as recorded' if bad==0 else '%d deviations'%bad)
sys.exit(1 if bad else 0)
PY
