#!/bin/bash
# Mirrors the contract files (/verif/contracts/<pkg>/verif_contracts*.go, the source of truth read by govc) into /repo as
# comment-only files behind the build tag "verif", one small commit per package directory, and records the commits in
# claims.json (_hooks) -> MANIFEST.hooks.source_commits.
set -e
cd /verif
changed=0
for f in $(cd contracts && find . -name 'verif_contracts*.go' | sort); do
  rel=$(dirname $f)
  dst=/repo/$rel/$(basename $f)
  if ! cmp -s contracts/$f $dst; then
    cp contracts/$f $dst
    git -C /repo add $rel/$(basename $f)
    pkg=${rel#./}; [ "$pkg" = "." ] && pkg="root package"
    git -C /repo commit -q -m "verif: contracts for $pkg as structured comments (comment-only file, build tag verif)" -- $rel/$(basename $f)
    changed=1
  fi
done
hooks=$(git -C /repo log --format=%h --grep='^verif: contracts for' | tac | tr '\n' ' ')
python3 - "$hooks" <<'PY'
import json,sys
c=json.load(open('/verif/claims.json'))
c['_hooks']=sys.argv[1].split()
json.dump(c,open('/verif/claims.json','w'),indent=1)
PY
python3 tools_manifest.py >/dev/null
echo "hook commits: $hooks"
