#!/bin/bash
# usage: tools/mk_seed_scratch.sh <name>...  -- scratch copy of /repo HEAD under /tmp/seedwt/<name> as its own git repo,
# with the contract mirror files removed (a sub-agent must see nothing of /verif's specifications).
for n in "$@"; do
  D=/tmp/seedwt/$n; rm -rf $D; mkdir -p $D
  (cd /repo && git archive HEAD | tar -x -C $D)
  find $D -name 'verif_contracts*.go' -delete
  (cd $D && git init -q && git add -A && git -c user.name=s -c user.email=s@s commit -qm base)
done
