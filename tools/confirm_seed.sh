#!/bin/bash
# usage: tools/confirm_seed.sh <seed dir with X.patch.diff, X_demo_test.go, X.meta.json> <X> <scratch worktree>
# Confirms a seeded change in a scratch worktree of /repo (never in /repo): it applies, builds, the package's existing
# tests still pass, the demonstration fails with the change and passes without it. Prints one summary line.
D=$1; X=$2; WT=$3
export GOFLAGS=-mod=mod GOPROXY=off GOEXPERIMENT=synctest
PATCH=$D/$X.patch.diff
[ -f $D/$X.adapted.patch.diff ] && PATCH=$D/$X.adapted.patch.diff
META=$D/$X.meta.json
PKG=$(python3 -c "import json;print(json.load(open('$META'))['package_dir'])")
DEMO=$(python3 -c "import json;print(json.load(open('$META'))['demo_file_name'])")
TEST=$(python3 -c "import json;print(json.load(open('$META'))['test_name'])")
cd $WT && git checkout -q -- . && git clean -fdq
if ! git apply --check $PATCH 2>/dev/null; then echo "RESULT $D $X patch-does-not-apply"; exit 0; fi
git apply $PATCH
if ! go build ./... >/tmp/confirm_build.log 2>&1; then echo "RESULT $D $X build-failed"; git checkout -q -- .; exit 0; fi
if go test -vet=off -count=1 -timeout 600s ./$PKG >/tmp/confirm_pkg.log 2>&1; then EX=pass; else EX=FAIL; fi
cp $D/${X}_demo_test.go $WT/$PKG/$DEMO
if go test -vet=off -count=1 -timeout 300s -run "^$TEST\$" ./$PKG >/tmp/confirm_demo1.log 2>&1; then WITH=pass; else WITH=fail; fi
git checkout -q -- .
if go test -vet=off -count=1 -timeout 300s -run "^$TEST\$" ./$PKG >/tmp/confirm_demo2.log 2>&1; then WITHOUT=pass; else WITHOUT=fail; fi
rm -f $WT/$PKG/$DEMO
echo "RESULT $D $X existing-tests=$EX demo-with-change=$WITH demo-without=$WITHOUT"
