#!/bin/bash
# usage: tools/run_one_seed.sh <seed>  -- applies the seed to its own scratch copy of /repo, runs the property's quick check
# against it; writes /tmp/seedres/<seed>.result (one RESULTS.tsv line) and /tmp/seedres/<seed>.replay (REPLAY.tsv lines)
cd /verif
seed=$1; pid=${seed%%-*}
S=/tmp/verif_seed_repo.$seed; O=/tmp/verif_seed_out.$seed
mkdir -p /tmp/seedres; rm -rf $S $O; mkdir -p $S $O
(cd /repo && git archive HEAD | tar -x -C $S)
if ! (cd $S && patch -s -p1 < /verif/seeded/$seed/patch.diff); then echo -e "$seed\tpatch-does-not-apply" > /tmp/seedres/$seed.result; rm -rf $S $O; exit; fi
out=$(VERIF_REPO=$S VERIF_OUT_ROOT=$O ./bin/govc check $pid quick 2>&1); rc=$?
python3 - "$seed" "$out" > /tmp/seedres/$seed.replay <<'PY'
import json,sys,re,os
seed,out=sys.argv[1:3]
for m in re.finditer(r"^VIOLATION property=\S+ replay=(\S+)", out, re.M):
    f=m.group(1)
    try:
        d=json.load(open(f))
    except Exception as e:
        print(f"{seed}\t{os.path.basename(f)}\t\tbounded-test\t"); continue
    r=d.get("replay") or {}
    if "obligation" not in d:
        print(f"{seed}\t{os.path.basename(f)}\t\tbounded-test\tfailing input inside the bounded test's output"); continue
    print(f"{seed}\t{d.get('obligation')}\t{d.get('answer','')}\t{r.get('status','')}\t{(r.get('reason','') or '')[:160]}")
PY
viol=$(echo "$out" | grep "^VIOLATION" | sed 's/.*obligation=//; s/^VIOLATION property=[^ ]* replay=[^ ]*bounded[-_]\([a-z_-]*\).json.*/bounded:\1/' | tr '\n' ';' | cut -c1-400)
und=$(echo "$out" | grep -c "^UNDECIDED")
echo -e "$seed\texit=$rc\t$viol\tundecided=$und" > /tmp/seedres/$seed.result
rm -rf $S $O
cat /tmp/seedres/$seed.result
