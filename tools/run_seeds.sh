#!/bin/bash
# Applies each kept seeded change to /repo (working tree only, never committed), runs the property's quick check,
# reverts, and records which obligation reports it. Output: seeded/RESULTS.tsv
cd /verif
# evidence files are rewritten by every check run: keep the ones of the unchanged tree, not of the seeded runs
rm -rf /tmp/verif_evidence_keep && cp -r evidence /tmp/verif_evidence_keep
: > seeded/RESULTS.tsv
: > seeded/REPLAY.tsv
for d in seeded/C*-*; do
  pid=$(basename $d | cut -d- -f1)
  if ! git -C /repo apply --check $PWD/$d/patch.diff 2>/dev/null; then echo -e "$(basename $d)\tpatch-does-not-apply" >> seeded/RESULTS.tsv; continue; fi
  git -C /repo apply $PWD/$d/patch.diff
  if grep -q "\"property_id\": \"$pid\"" MANIFEST.json && ! python3 -c "import json,sys;m=json.load(open('MANIFEST.json'));sys.exit(0 if any(c['property_id']=='$pid' for c in m['checks']) else 1)"; then :; fi
  out=$(./check $pid quick 2>&1); rc=$?
  git -C /repo checkout -- .
  python3 - "$pid" "$(basename $d)" "$out" >> seeded/REPLAY.tsv <<'PY'
import json,sys,re,os
pid,seed,out=sys.argv[1:4]
for m in re.finditer(r"^VIOLATION property=\S+ replay=(\S+)", out, re.M):
    f=m.group(1)
    try:
        d=json.load(open(f))
    except Exception as e:
        print(f"{seed}\t{os.path.basename(f)}\tunreadable"); continue
    r=d.get("replay") or {}
    print(f"{seed}\t{d.get('obligation', os.path.basename(f))}\t{d.get('answer','')}\t{r.get('status','')}\t{(r.get('reason','') or '')[:160]}")
PY
  viol=$(echo "$out" | grep "^VIOLATION" | sed 's/.*obligation=//' | tr '\n' ';' | cut -c1-400)
  echo -e "$(basename $d)\texit=$rc\t$viol" >> seeded/RESULTS.tsv
done
rm -rf evidence && cp -r /tmp/verif_evidence_keep evidence && rm -rf /tmp/verif_evidence_keep
git -C /repo status --short | head -3
cat seeded/RESULTS.tsv
