#!/bin/bash
# Applies each kept seeded change to a SCRATCH COPY of /repo (never to /repo itself), runs the property's quick check
# against the copy with all outputs redirected, and records which obligations report it and whether the replay produced
# a failing input on the real (seeded) code. Outputs: seeded/RESULTS.tsv, seeded/REPLAY.tsv
cd /verif
S=/tmp/verif_seed_repo; O=/tmp/verif_seed_out
: > seeded/RESULTS.tsv
: > seeded/REPLAY.tsv
for d in seeded/C*-*; do
  seed=$(basename $d); pid=${seed%%-*}
  rm -rf $S $O; mkdir -p $S $O
  (cd /repo && git archive HEAD | tar -x -C $S)
  if ! (cd $S && patch -s -p1 < /verif/$d/patch.diff); then echo -e "$seed\tpatch-does-not-apply" >> seeded/RESULTS.tsv; continue; fi
  out=$(VERIF_REPO=$S VERIF_OUT_ROOT=$O ./bin/govc check $pid quick 2>&1); rc=$?
  python3 - "$seed" "$out" >> seeded/REPLAY.tsv <<'PY'
import json,sys,re,os
seed,out=sys.argv[1:3]
for m in re.finditer(r"^VIOLATION property=\S+ replay=(\S+)", out, re.M):
    f=m.group(1)
    try:
        d=json.load(open(f))
    except Exception as e:
        print(f"{seed}\t{os.path.basename(f)}\t\tbounded-test\t"); continue
    r=d.get("replay") or {}
    if "obligation" not in d:
        print(f"{seed}\t{os.path.basename(f)}\t\tbounded-test\tfailing input inside the bounded test's output"); continue
    print(f"{seed}\t{d.get('obligation')}\t{d.get('answer','')}\t{r.get('status','')}\t{(r.get('reason','') or '')[:160]}")
PY
  viol=$(echo "$out" | grep "^VIOLATION" | sed 's/.*obligation=//; s/^VIOLATION property=[^ ]* replay=[^ ]*bounded[-_]\([a-z_-]*\).json.*/bounded:\1/' | tr '\n' ';' | cut -c1-400)
  echo -e "$seed\texit=$rc\t$viol" >> seeded/RESULTS.tsv
done
rm -rf $S $O
cat seeded/RESULTS.tsv
