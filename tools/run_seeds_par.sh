#!/bin/bash
# usage: tools/run_seeds_par.sh [seed...]   (default: all) -- runs seeds 4 at a time on scratch copies and merges the
# lines into seeded/RESULTS.tsv and seeded/REPLAY.tsv (rows of the seeds that were run are replaced)
cd /verif
seeds="$@"; [ -z "$seeds" ] && seeds=$(ls seeded | grep -E '^C[0-9]+-[A-Z]$')
echo $seeds | tr ' ' '\n' | xargs -P ${PAR:-4} -n 1 tools/run_one_seed.sh > /dev/null
python3 - $seeds <<'PY'
import sys,os
seeds=sys.argv[1:]
def merge(path,ext):
    rows={}
    order=[]
    if os.path.exists(path):
        for l in open(path):
            k=l.split('\t')[0]
            rows.setdefault(k,[]).append(l)
    for s in seeds:
        f=f'/tmp/seedres/{s}.{ext}'
        if os.path.exists(f):
            rows[s]=[l for l in open(f)]
    with open(path,'w') as o:
        for k in sorted(rows):
            for l in rows[k]: o.write(l)
merge('seeded/RESULTS.tsv','result'); merge('seeded/REPLAY.tsv','replay')
PY
for s in $seeds; do grep -P "^$s\t" seeded/RESULTS.tsv; done
