#!/bin/bash
# usage: tools/ingest_seed.sh <scratch name under /tmp/seedwt> <k> <seed id e.g. C06-D>
# Confirms a sub-agent's change in its scratch copy (applies, builds, package tests pass, demo fails with / passes without),
# then stores it as /verif/seeded/<id>/ (patch.diff, demo test, meta.json) and prints one RESULT line.
W=/tmp/seedwt/$1; K=$2; ID=$3
O=$W/OUT/$K
export GOFLAGS=-mod=mod GOPROXY=off GOEXPERIMENT=synctest
[ -f $O/patch.diff ] || { echo "RESULT $ID no-patch"; exit 1; }
PKG=$(python3 -c "import json;print(json.load(open('$O/meta.json'))['package_dir'])")
DEMO=$(python3 -c "import json;print(json.load(open('$O/meta.json'))['demo_file_name'])")
TEST=$(python3 -c "import json;print(json.load(open('$O/meta.json'))['test_name'])")
cd $W && git checkout -q -- . && git clean -fdq -e OUT
git apply --check $O/patch.diff 2>/dev/null || { echo "RESULT $ID patch-does-not-apply"; exit 1; }
git apply $O/patch.diff
go build ./... >/tmp/ingest_build.log 2>&1 || { echo "RESULT $ID build-failed"; git checkout -q -- .; exit 1; }
if [ "$PKG" = "." ]; then
  # the root package's whole test binary aborts in the baseline; run the stable subset by name prefix of the touched area
  RUN=${ROOT_RUN:-'TestStream|TestFrameSorter|TestReceiveStream|TestSendStream|TestConnID|TestStreamsMap|TestCryptoStream|TestFramer|TestPacketPacker|TestPacker|TestUnpack|TestConfig|TestTransport|TestServer|TestToken|TestRetry|TestClosed|TestMTU|TestDatagram|TestPath|TestWindow'}
  if go test -vet=off -count=1 -timeout 900s -run "$RUN" . >/tmp/ingest_pkg.log 2>&1; then EX=pass; else EX=FAIL; fi
else
  if go test -vet=off -count=1 -timeout 900s ./$PKG >/tmp/ingest_pkg.log 2>&1; then EX=pass; else EX=FAIL; fi
fi
cp $O/$DEMO $W/$PKG/$DEMO
if go test -vet=off -count=1 -timeout 300s -run "^$TEST\$" ./$PKG >/tmp/ingest_demo1.log 2>&1; then WITH=pass; else WITH=fail; fi
git checkout -q -- .
if go test -vet=off -count=1 -timeout 300s -run "^$TEST\$" ./$PKG >/tmp/ingest_demo2.log 2>&1; then WITHOUT=pass; else WITHOUT=fail; fi
rm -f $W/$PKG/$DEMO
echo "RESULT $ID existing-tests=$EX demo-with-change=$WITH demo-without=$WITHOUT"
if [ $EX = pass ] && [ $WITH = fail ] && [ $WITHOUT = pass ]; then
  D=/verif/seeded/$ID; mkdir -p $D; cp $O/patch.diff $D/patch.diff; cp $O/$DEMO $D/$DEMO
  python3 - "$O/meta.json" "$D/meta.json" "$EX/$WITH/$WITHOUT" <<'PY'
import json,sys
m=json.load(open(sys.argv[1]))
out={"property":m["property"],"what":m["what"],"needs_to_manifest":m["needs_to_manifest"],
     "demonstration":{"package_dir":m["package_dir"],"file":m["demo_file_name"],"test":m["test_name"]},
     "confirmed_by_me":"tools/ingest_seed.sh in the sub-agent's scratch copy: patch applies, go build ./... ok, existing tests of the package pass (root: stable -run subset), demo fails with the change and passes without (existing/with/without = %s)"%sys.argv[3],
     "author_ran":m.get("ran","")}
json.dump(out,open(sys.argv[2],"w"),indent=1)
PY
  echo "STORED $D"
fi
