//go:build verif

package quicvarint

// Contracts for quicvarint (property C08; used by every wire codec). Bit-vector arithmetic throughout.

//@ spec vlen(x uint64) int = ite(x <= 63, 1, ite(x <= 16383, 2, ite(x <= 1073741823, 4, 8)))

// first-byte length prefix -> encoded length
//@ spec plen(first uint8) int = ite(first>>6 == 0, 1, ite(first>>6 == 1, 2, ite(first>>6 == 2, 4, 8)))

// value decoded from the bytes of s according to RFC 9000 §16 (s long enough)
//@ spec vdec(s []byte) uint64 = ite(s[0]>>6 == 0, uint64(s[0]&63),
//@        ite(s[0]>>6 == 1, uint64(s[0]&63)<<8 | uint64(s[1]),
//@        ite(s[0]>>6 == 2, uint64(s[0]&63)<<24 | uint64(s[1])<<16 | uint64(s[2])<<8 | uint64(s[3]),
//@            uint64(s[0]&63)<<56 | uint64(s[1])<<48 | uint64(s[2])<<40 | uint64(s[3])<<32 | uint64(s[4])<<24 | uint64(s[5])<<16 | uint64(s[6])<<8 | uint64(s[7]))))

//@ extern (r encoding/binary.bigEndian) Uint64
//@   arith bv
//@   requires len(b) >= 8
//@   ensures  result == uint64(b[0])<<56 | uint64(b[1])<<48 | uint64(b[2])<<40 | uint64(b[3])<<32 | uint64(b[4])<<24 | uint64(b[5])<<16 | uint64(b[6])<<8 | uint64(b[7])
//@   modifies nothing

//@ func Len
//@   props C08
//@   arith bv
//@   panics when i > 4611686018427387903
//@   ensures  [value] result == vlen(i)
//@   modifies nothing

//@ func Parse
//@   props C08
//@   arith bv
//@   ensures  [err-iff]  iff(result2 != nil, len(b) == 0 || len(b) < plen(b[0]))
//@   ensures  [on-error] implies(result2 != nil, result0 == 0 && result1 == 0)
//@   ensures  [consumed] implies(result2 == nil, result1 == plen(b[0]) && result1 <= len(b) && result1 >= 1)
//@   ensures  [range]    implies(result2 == nil, result0 <= 4611686018427387903)
//@   ensures  [bv:value] implies(result2 == nil, result0 == vdec(b))
//@   modifies nothing

//@ func Append
//@   props C08
//@   arith bv
//@   panics when i > 4611686018427387903
//@   ensures  [len]    len(result) == len(b) + vlen(i)
//@   ensures  [prefix] forall(k, 0, len(b), result[k] == old(b[k]))
//@   ensures  [array]  samearray(result, b) || isfresh(result)
//@   ensures  [in-place] implies(len(b) + vlen(i) <= cap(b), samearray(result, b) && cap(result) == cap(b))
//@   ensures  [bv:b1]     implies(i <= 63, result[len(b)] == uint8(i))
//@   ensures  [bv:b2]     implies(i > 63 && i <= 16383, result[len(b)] == uint8(i>>8)|0x40 && result[len(b)+1] == uint8(i))
//@   ensures  [bv:b4]     implies(i > 16383 && i <= 1073741823, result[len(b)] == uint8(i>>24)|0x80 && result[len(b)+1] == uint8(i>>16) && result[len(b)+2] == uint8(i>>8) && result[len(b)+3] == uint8(i))
//@   ensures  [bv:b8]     implies(i > 1073741823, result[len(b)] == uint8(i>>56)|0xc0 && result[len(b)+1] == uint8(i>>48) && result[len(b)+2] == uint8(i>>40) && result[len(b)+3] == uint8(i>>32) &&
//@                                 result[len(b)+4] == uint8(i>>24) && result[len(b)+5] == uint8(i>>16) && result[len(b)+6] == uint8(i>>8) && result[len(b)+7] == uint8(i))
//@   modifies b[*]

//@ lemma varintRoundTrip
//@   props C08
//@   arith bv
//@   var b []byte
//@   var i uint64
//@   assume i <= 4611686018427387903
//@   step r = Append(b, i)
//@   step v, n, err = Parse(r[len(b):])
//@   show [ok]    err == nil
//@   show [value] v == i
//@   show [len]   n == vlen(i)

//@ func AppendWithLen
//@   props C08
//@   arith bv
//@   panics when (length != 1 && length != 2 && length != 4 && length != 8) || i > 4611686018427387903 || vlen(i) > length
//@   ensures  [len] len(result) == len(b) + length
//@   ensures  [array] samearray(result, b) || isfresh(result)
//@   ensures  [in-place] implies(len(b) + length <= cap(b), samearray(result, b) && cap(result) == cap(b))
//@   modifies b[*]
//@ loop AppendWithLen #0
//@   invariant 0 <= iter && iter < length - l - 1
//@   invariant len(b) == len(old(b)) + 1 + iter
//@   invariant samearray(b, old(b)) || isfresh(b)
//@   invariant implies(len(old(b)) + length <= cap(old(b)), samearray(b, old(b)) && cap(b) == cap(old(b)))
//@   invariant l == vlen(i) && l < length && (length == 2 || length == 4 || length == 8) && i <= 4611686018427387903
//@   modifies old(b)[*]
//@ loop AppendWithLen #1
//@   invariant 0 <= iter && iter < l
//@   invariant len(b) == len(old(b)) + length - l + iter
//@   invariant samearray(b, old(b)) || isfresh(b)
//@   invariant implies(len(old(b)) + length <= cap(old(b)), samearray(b, old(b)) && cap(b) == cap(old(b)))
//@   invariant l == vlen(i) && l < length && (length == 2 || length == 4 || length == 8)
//@   modifies old(b)[*]

//@ func Read
//@   props C08
//@   arith bv
//@   ensures  [range] implies(result1 == nil, result0 <= 4611686018427387903)
//@   ensures  [on-error] implies(result1 != nil, result0 == 0)
//@   modifies nothing

//@ func NewReader
//@   props C18
//@   ensures [non-nil] result != nil
//@   modifies nothing
