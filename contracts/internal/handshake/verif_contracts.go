//go:build verif

package handshake

// Contracts for internal/handshake (properties C05, C14).

//@ func encodeRemoteAddr
//@   trusted string/IP encoding of an address; only its determinism is used
//@   modifies nothing

//@ func (t *Token) ValidateRemoteAddr
//@   trusted bytes.Equal of two encodings; abstracted as the uninterpreted predicate addrmatch(token, addr)
//@   ensures [abstract] iff(result, ufb("addrmatch", t, addr))
//@   modifies nothing

//@ func (g *TokenGenerator) DecodeToken
//@   props C14
//@   ensures [absent] implies(len(encrypted) == 0, result0 == nil && result1 == nil)
//@   ensures [error-means-no-token] implies(result1 != nil, result0 == nil)
//@   ensures [retry-fields-only-for-retry] implies(result0 != nil && !result0.IsRetryToken, result0.OriginalDestConnectionID.l == 0 && result0.RetrySrcConnectionID.l == 0)
//@   modifies nothing

//@ func (s *tokenProtector) DecodeToken
//@   trusted AEAD open of the sealed token (external cryptography); only "error or some freshly allocated plaintext" is used
//@   ensures isfresh(result0) || result0 == nil
//@   modifies nothing
