//go:build verif

package protocol

// Contracts for internal/protocol (properties C05, C08, C15, C16).

//@ func ParseConnectionID
//@   props C08
//@   panics when len(b) > 20
//@   ensures [len] result.l == len(b)
//@   modifies nothing

//@ func (c ConnectionID) Len
//@   props C08
//@   ensures [value] result == c.l
//@   modifies nothing

//@ func (c ConnectionID) Bytes
//@   props C08
//@   requires c.l <= 20
//@   ensures [len] len(result) == c.l
//@   modifies nothing
