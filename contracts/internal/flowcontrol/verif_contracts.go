//go:build verif

package flowcontrol

// Contracts for internal/flowcontrol (properties C03, C04, C12). Comment-only file.

//@ const MaxBC = 4611686018427387903

//@ pred (c *baseFlowController) fcInv() =
//@      0 <= c.bytesSent && c.bytesSent <= MaxBC && 0 <= c.sendWindow && c.sendWindow <= MaxBC &&
//@      0 <= c.lastBlockedAt && c.lastBlockedAt <= c.sendWindow &&
//@      0 <= c.bytesRead && c.bytesRead <= c.highestReceived && c.highestReceived <= MaxBC &&
//@      0 <= c.receiveWindowSize && c.receiveWindowSize <= MaxBC && 0 <= c.maxReceiveWindowSize && c.maxReceiveWindowSize <= MaxBC &&
//@      0 <= c.receiveWindow && c.receiveWindow <= c.bytesRead + c.receiveWindowSize

//@ func (c *baseFlowController) SendWindowSize
//@   props C04
//@   requires c.fcInv()
//@   ensures  [value] result == ite(c.bytesSent > c.sendWindow, 0, c.sendWindow - c.bytesSent)
//@   modifies nothing

//@ func (c *baseFlowController) IsNewlyBlocked
//@   props C04
//@   requires c.fcInv()
//@   ensures  [when]  iff(result0, old(c.bytesSent) >= old(c.sendWindow) && old(c.sendWindow) != old(c.lastBlockedAt))
//@   ensures  [at]    implies(result0, result1 == c.sendWindow && c.lastBlockedAt == c.sendWindow)
//@   ensures  [quiet] implies(!result0, result1 == 0 && c.lastBlockedAt == old(c.lastBlockedAt))
//@   ensures  [inv]   c.fcInv()
//@   modifies c.lastBlockedAt

//@ func (c *baseFlowController) AddBytesSent
//@   props C04
//@   requires c.fcInv() && 0 <= n && n <= MaxBC - c.bytesSent
//@   ensures  [adds] c.bytesSent == old(c.bytesSent) + n
//@   modifies c.bytesSent

//@ func (c *baseFlowController) UpdateSendWindow
//@   props C04
//@   requires c.fcInv() && 0 <= offset && offset <= MaxBC
//@   ensures  [max]   c.sendWindow == ite(offset > old(c.sendWindow), offset, old(c.sendWindow))
//@   ensures  [flag]  iff(updated, offset > old(c.sendWindow))
//@   ensures  [inv]   c.fcInv()
//@   modifies c.sendWindow

//@ func (c *baseFlowController) addBytesRead
//@   props C04
//@   requires c.fcInv() && 0 <= n && n <= c.highestReceived - c.bytesRead
//@   ensures  [adds] c.bytesRead == old(c.bytesRead) + n
//@   ensures  [inv]  c.fcInv()
//@   modifies c.bytesRead

//@ func (c *baseFlowController) hasWindowUpdate
//@   props C04
//@   requires c.fcInv()
//@   modifies nothing

//@ func (c *baseFlowController) startNewAutoTuningEpoch
//@   props C04
//@   ensures c.epochStartTime == now && c.epochStartOffset == c.bytesRead
//@   modifies c.epochStartTime, c.epochStartOffset

//@ func (c *baseFlowController) checkFlowControlViolation
//@   props C04 C03
//@   ensures [iff] iff(result, c.highestReceived > c.receiveWindow)
//@   modifies nothing

//@ func (c *baseFlowController) maybeAdjustWindowSize
//@   props C04
//@   requires c.fcInv() && c.rttStats != nil
//@   ensures  [size]  old(c.receiveWindowSize) <= c.receiveWindowSize &&
//@                    (c.receiveWindowSize == old(c.receiveWindowSize) || c.receiveWindowSize <= c.maxReceiveWindowSize)
//@   ensures  [inv]   c.fcInv()
//@   modifies c.receiveWindowSize, c.epochStartTime, c.epochStartOffset

//@ func (c *baseFlowController) getWindowUpdate
//@   props C04
//@   requires c.fcInv() && c.rttStats != nil
//@   ensures  [monotone] c.receiveWindow >= old(c.receiveWindow)
//@   ensures  [exact]    result == 0 && c.receiveWindow == old(c.receiveWindow) && c.receiveWindowSize == old(c.receiveWindowSize) ||
//@                       result == c.bytesRead + c.receiveWindowSize && c.receiveWindow == result
//@   ensures  [size]     old(c.receiveWindowSize) <= c.receiveWindowSize &&
//@                       (c.receiveWindowSize == old(c.receiveWindowSize) || c.receiveWindowSize <= c.maxReceiveWindowSize)
//@   ensures  [inv]      c.fcInv()
//@   modifies c.receiveWindow, c.receiveWindowSize, c.epochStartTime, c.epochStartOffset

//@ devirt flowcontrol.connectionFlowControllerI *connectionFlowController
//@ devirt flowcontrol.StreamFlowController *streamFlowController

//@ pred (c *connectionFlowController) cInv() = c.baseFlowController.fcInv() && c.rttStats != nil

//@ pred (c *streamFlowController) sInv() = c.baseFlowController.fcInv() && c.rttStats != nil && c.connection != nil &&
//@      dyn(c.connection, *connectionFlowController).cInv()

//@ func (c *connectionFlowController) IncrementHighestReceived
//@   props C04 C03
//@   requires c.cInv() && 0 <= increment && increment <= MaxBC - c.highestReceived
//@   ensures  [adds]  c.highestReceived == old(c.highestReceived) + increment
//@   ensures  [iff]   iff(result != nil, c.highestReceived > c.receiveWindow)
//@   ensures  [code]  implies(result != nil, iserr(result, qerr.FlowControlError))
//@   ensures  [inv]   c.cInv()
//@   modifies c.highestReceived, c.epochStartTime, c.epochStartOffset

//@ func (c *connectionFlowController) AddBytesRead
//@   props C04
//@   requires c.cInv() && 0 <= n && n <= c.highestReceived - c.bytesRead
//@   ensures  [adds] c.bytesRead == old(c.bytesRead) + n
//@   ensures  [inv]  c.cInv()
//@   modifies c.bytesRead

//@ func (c *connectionFlowController) GetWindowUpdate
//@   props C04
//@   requires c.cInv()
//@   ensures  [monotone] c.receiveWindow >= old(c.receiveWindow)
//@   ensures  [exact]    result == 0 && c.receiveWindow == old(c.receiveWindow) ||
//@                       result == c.bytesRead + c.receiveWindowSize && c.receiveWindow == result
//@   ensures  [inv]      c.cInv()
//@   modifies c.receiveWindow, c.receiveWindowSize, c.epochStartTime, c.epochStartOffset

//@ func (c *connectionFlowController) EnsureMinimumWindowSize
//@   props C04
//@   requires c.cInv() && 0 <= inc
//@   ensures  [size]  old(c.receiveWindowSize) <= c.receiveWindowSize &&
//@                    (c.receiveWindowSize == old(c.receiveWindowSize) || c.receiveWindowSize <= c.maxReceiveWindowSize)
//@   ensures  [inv]   c.cInv()
//@   modifies c.receiveWindowSize, c.epochStartTime, c.epochStartOffset

//@ func (c *connectionFlowController) Reset
//@   props C04
//@   requires c.cInv()
//@   ensures  [clean] implies(result == nil, c.bytesSent == 0 && c.sendWindow == 0 && c.lastBlockedAt == 0 && old(c.bytesRead) == 0 && old(c.highestReceived) == 0)
//@   ensures  [refuse] implies(result != nil, c.bytesSent == old(c.bytesSent) && c.sendWindow == old(c.sendWindow) && c.lastBlockedAt == old(c.lastBlockedAt))
//@   ensures  [inv]   c.cInv()
//@   modifies c.bytesSent, c.sendWindow, c.lastBlockedAt

//@ func (c *streamFlowController) UpdateHighestReceived
//@   props C03 C04 C12
//@   requires c.sInv() && 0 <= offset && offset <= MaxBC
//@   let conn = dyn(c.connection, *connectionFlowController)
//@   requires conn.highestReceived + offset <= MaxBC
//@   let known = old(c.receivedFinalOffset)
//@   let hr = old(c.highestReceived)
//@   let fserr = known && (final && offset != hr || offset > hr) || final && offset < hr
//@   ensures  [final-size-iff] iff(iserr(result, qerr.FinalSizeError), fserr)
//@   ensures  [flow-control-iff] implies(!fserr, iff(iserr(result, qerr.FlowControlError),
//@                 offset > hr && (offset > c.receiveWindow || old(conn.highestReceived) + (offset - hr) > conn.receiveWindow)))
//@   ensures  [ok-iff] iff(result == nil, !fserr && !(offset > hr && (offset > c.receiveWindow || old(conn.highestReceived) + (offset - hr) > conn.receiveWindow)))
//@   ensures  [highest] c.highestReceived == ite(fserr, hr, ite(offset > hr, offset, hr))
//@   ensures  [final-flag] c.receivedFinalOffset == ite(known && (final && offset != hr || offset > hr), known, known || final)
//@   ensures  [conn-credit] conn.highestReceived == old(conn.highestReceived) + ite(!fserr && offset > hr && offset <= c.receiveWindow, offset - hr, 0)
//@   ensures  [inv] c.baseFlowController.fcInv() && conn.cInv()
//@   modifies c.highestReceived, c.receivedFinalOffset, c.epochStartTime, c.epochStartOffset, conn.highestReceived, conn.epochStartTime, conn.epochStartOffset

//@ func (c *streamFlowController) AddBytesRead
//@   props C04
//@   let conn = dyn(c.connection, *connectionFlowController)
//@   requires c.sInv() && 0 <= n && n <= c.highestReceived - c.bytesRead && n <= conn.highestReceived - conn.bytesRead
//@   ensures  [stream-adds] c.bytesRead == old(c.bytesRead) + n
//@   ensures  [conn-credit] conn.bytesRead == old(conn.bytesRead) + n
//@   ensures  [inv] c.baseFlowController.fcInv() && conn.cInv()
//@   modifies c.bytesRead, conn.bytesRead

//@ func (c *streamFlowController) Abandon
//@   props C04
//@   let conn = dyn(c.connection, *connectionFlowController)
//@   requires c.sInv() && c.highestReceived - c.bytesRead <= conn.highestReceived - conn.bytesRead
//@   ensures  [conn-credit] conn.bytesRead == old(conn.bytesRead) + (old(c.highestReceived) - old(c.bytesRead))
//@   ensures  [once] c.bytesRead == c.highestReceived
//@   ensures  [inv] c.baseFlowController.fcInv() && conn.cInv()
//@   modifies c.bytesRead, conn.bytesRead

//@ func (c *streamFlowController) AddBytesSent
//@   props C04
//@   let conn = dyn(c.connection, *connectionFlowController)
//@   requires c.sInv() && 0 <= n && n <= MaxBC - c.bytesSent && n <= MaxBC - conn.bytesSent
//@   ensures  [stream-adds] c.bytesSent == old(c.bytesSent) + n
//@   ensures  [conn-adds]   conn.bytesSent == old(conn.bytesSent) + n
//@   modifies c.bytesSent, conn.bytesSent

//@ func (c *streamFlowController) SendWindowSize
//@   props C04
//@   let conn = dyn(c.connection, *connectionFlowController)
//@   requires c.sInv()
//@   ensures  [min] result == min(ite(c.bytesSent > c.sendWindow, 0, c.sendWindow - c.bytesSent), ite(conn.bytesSent > conn.sendWindow, 0, conn.sendWindow - conn.bytesSent))
//@   modifies nothing

//@ func (c *streamFlowController) IsNewlyBlocked
//@   props C04
//@   requires c.sInv()
//@   ensures  [when]  iff(result, old(c.bytesSent) >= old(c.sendWindow) && old(c.sendWindow) != old(c.lastBlockedAt))
//@   ensures  [at]    implies(result, c.lastBlockedAt == c.sendWindow)
//@   ensures  [quiet] implies(!result, c.lastBlockedAt == old(c.lastBlockedAt))
//@   modifies c.lastBlockedAt

//@ func (c *streamFlowController) shouldQueueWindowUpdate
//@   props C04
//@   requires c.baseFlowController.fcInv()
//@   ensures  [final-never] implies(c.receivedFinalOffset, !result)
//@   modifies nothing

//@ func (c *streamFlowController) GetWindowUpdate
//@   props C04
//@   let conn = dyn(c.connection, *connectionFlowController)
//@   requires c.sInv()
//@   ensures  [monotone] c.receiveWindow >= old(c.receiveWindow)
//@   ensures  [exact]    result == 0 && c.receiveWindow == old(c.receiveWindow) ||
//@                       result == c.bytesRead + c.receiveWindowSize && c.receiveWindow == result
//@   ensures  [final-none] implies(c.receivedFinalOffset, result == 0)
//@   ensures  [conn-window-kept] conn.receiveWindow == old(conn.receiveWindow) && conn.bytesRead == old(conn.bytesRead)
//@   ensures  [inv] c.baseFlowController.fcInv() && conn.cInv()
//@   modifies c.receiveWindow, c.receiveWindowSize, c.epochStartTime, c.epochStartOffset, conn.receiveWindowSize, conn.epochStartTime, conn.epochStartOffset

//@ func NewConnectionFlowController
//@   props C04 C12
//@   requires 0 <= receiveWindow && receiveWindow <= MaxBC && 0 <= maxReceiveWindow && maxReceiveWindow <= MaxBC && rttStats != nil
//@   ensures  [enforced] result.receiveWindow == receiveWindow && result.receiveWindowSize == receiveWindow && result.maxReceiveWindowSize == maxReceiveWindow
//@   ensures  [zero] result.bytesSent == 0 && result.sendWindow == 0 && result.bytesRead == 0 && result.highestReceived == 0 && result.lastBlockedAt == 0
//@   ensures  [inv] result.cInv()
//@   modifies nothing

//@ func NewStreamFlowController
//@   props C04 C12
//@   requires 0 <= receiveWindow && receiveWindow <= MaxBC && 0 <= maxReceiveWindow && maxReceiveWindow <= MaxBC && 0 <= initialSendWindow && initialSendWindow <= MaxBC
//@   requires rttStats != nil && typeis(cfc, *connectionFlowController) && dyn(cfc, *connectionFlowController).cInv()
//@   let r = dyn(result, *streamFlowController)
//@   ensures  [type] typeis(result, *streamFlowController)
//@   ensures  [enforced] r.receiveWindow == receiveWindow && r.receiveWindowSize == receiveWindow && r.maxReceiveWindowSize == maxReceiveWindow && r.sendWindow == initialSendWindow
//@   ensures  [zero] r.bytesSent == 0 && r.bytesRead == 0 && r.highestReceived == 0 && !r.receivedFinalOffset
//@   modifies nothing

// ---- two-call lemmas (proved from the contracts above; no body is opened) ----

//@ lemma blockedOnce
//@   props C04
//@   var c *baseFlowController
//@   assume c.fcInv()
//@   step b1, o1 = c.IsNewlyBlocked()
//@   step b2, o2 = c.IsNewlyBlocked()
//@   show [once] implies(b1, !b2)

//@ lemma blockedAgainOnlyAfterRaise
//@   props C04
//@   var c *baseFlowController
//@   var off protocol.ByteCount
//@   assume c.fcInv() && 0 <= off && off <= MaxBC
//@   step b1, o1 = c.IsNewlyBlocked()
//@   step up = c.UpdateSendWindow(off)
//@   step b2, o2 = c.IsNewlyBlocked()
//@   show [needs-raise] implies(b1 && b2, up)

//@ lemma abandonOnce
//@   props C04
//@   var c *streamFlowController
//@   assume c.sInv()
//@   assume c.highestReceived - c.bytesRead <= dyn(c.connection, *connectionFlowController).highestReceived - dyn(c.connection, *connectionFlowController).bytesRead
//@   step c.Abandon()
//@   step mid = dyn(c.connection, *connectionFlowController).bytesRead
//@   step c.Abandon()
//@   show [no-double-credit] dyn(c.connection, *connectionFlowController).bytesRead == mid

//@ lemma senderWithinWindow
//@   props C04
//@   var c *streamFlowController
//@   var n protocol.ByteCount
//@   assume c.sInv() && c.bytesSent <= c.sendWindow
//@   assume dyn(c.connection, *connectionFlowController).bytesSent <= dyn(c.connection, *connectionFlowController).sendWindow
//@   step w = c.SendWindowSize()
//@   assume 0 <= n && n <= w
//@   step c.AddBytesSent(n)
//@   show [stream] c.bytesSent <= c.sendWindow
//@   show [conn] dyn(c.connection, *connectionFlowController).bytesSent <= dyn(c.connection, *connectionFlowController).sendWindow
