//go:build verif

package utils

// Contracts for internal/utils. Comment-only file.

//@ func (r *RTTStats) SmoothedRTT
//@   props C20
//@   modifies nothing

//@ func (r *RTTStats) MinRTT
//@   props C20
//@   modifies nothing

//@ func (r *RTTStats) LatestRTT
//@   props C20
//@   modifies nothing

//@ func (r *RTTStats) MeanDeviation
//@   props C20
//@   modifies nothing

//@ func (r *RTTStats) MaxAckDelay
//@   props C20
//@   modifies nothing

// Rand: rejection sampling over crypto/rand (the source itself is external: any bytes may come back)
// (crypto/rand.Read and binary.BigEndian.Uint32 are extern contracts declared once, in the root package's and in
// internal/wire's contract files; extern contracts are global)

//@ func (r *Rand) Int31
//@   props C16 C05
//@   arith bv
//@   ensures [non-negative] 0 <= result
//@   modifies r.*

//@ func (r *Rand) Int31n
//@   props C16 C05
//@   arith bv
//@   requires n > 0
//@   ensures [range] 0 <= result && result < n
//@   modifies r.*
//@ loop (r *Rand) Int31n #0
//@   invariant 0 <= v
//@   modifies r.*

//@ func (r *RTTStats) PTO
//@   props C06
//@   modifies nothing
//@ func (r *RTTStats) HasMeasurement
//@   props C06
//@   modifies nothing

//@ func (r *RTTStats) ResetForPathMigration
//@   props C20
//@   ensures [no-measurement] !r.hasMeasurement
//@   modifies r.hasMeasurement, heap(atomic.Int64.v)

//@ func (r *RTTStats) UpdateRTT
//@   trusted RTT smoothing arithmetic (RFC 9002 5.3); no claimed clause depends on the values, only on which state it may write
//@   modifies r.hasMeasurement, heap(atomic.Int64.v)

//@ func (r *RTTStats) SetInitialRTT
//@   trusted frame only: stores into the receiver's atomic RTT fields
//@   modifies r._all
