//go:build verif

package utils

// Contracts for internal/utils. Comment-only file.

//@ func (r *RTTStats) SmoothedRTT
//@   props C20
//@   modifies nothing

//@ func (r *RTTStats) MinRTT
//@   props C20
//@   modifies nothing

//@ func (r *RTTStats) LatestRTT
//@   props C20
//@   modifies nothing

//@ func (r *RTTStats) MeanDeviation
//@   props C20
//@   modifies nothing

//@ func (r *RTTStats) MaxAckDelay
//@   props C20
//@   modifies nothing
