//go:build verif

package utils

// Contracts for internal/utils. Comment-only file.

//@ func (r *RTTStats) SmoothedRTT
//@   props C20
//@   modifies nothing

//@ func (r *RTTStats) MinRTT
//@   props C20
//@   modifies nothing

//@ func (r *RTTStats) LatestRTT
//@   props C20
//@   modifies nothing

//@ func (r *RTTStats) MeanDeviation
//@   props C20
//@   modifies nothing

//@ func (r *RTTStats) MaxAckDelay
//@   props C20
//@   modifies nothing

//@ func (r *Rand) Int31n
//@   trusted rejection sampling over crypto/rand with bit masks; result range stated from the documented behaviour (math/rand.Int31n)
//@   requires n > 0
//@   ensures 0 <= result && result < n
//@   modifies r.*

//@ func (r *RTTStats) PTO
//@   props C06
//@   modifies nothing
//@ func (r *RTTStats) HasMeasurement
//@   props C06
//@   modifies nothing
