//go:build verif

package list

// Contracts for internal/utils/linkedlist (generic doubly linked list). Comment-only file.
// The list is used by frameSorter (gap list); its node structure is not modelled: the
// accessors below are assumed contracts (generic bodies are outside the verified subset).

//@ func (l *List[T]) Front
//@   trusted generic function body (type-parameterised SSA is outside the verified subset); contract is the documented behaviour plus list well-formedness
//@   ensures implies(l.len > 0, result != nil)
//@   ensures implies(l.len == 0, result == nil)
//@   modifies nothing

//@ func (l *List[T]) Len
//@   trusted generic function body (type-parameterised SSA is outside the verified subset)
//@   ensures result == l.len
//@   modifies nothing
