//go:build verif

package congestion

// Contracts for internal/congestion (property C20). Integer arithmetic with exact machine wrap-around; floats as reals.

//@ pred (c *cubicSender) ccInv() = 1200 <= c.maxDatagramSize && c.maxDatagramSize <= 1452 &&
//@      2*c.maxDatagramSize <= c.congestionWindow && c.congestionWindow <= 10000*c.maxDatagramSize + c.maxDatagramSize &&
//@      c.cubic != nil && c.rttStats != nil && c.connStats != nil && c.pacer != nil

// ---- HybridSlowStart: only frames are needed by the sender ----
//@ func (s *HybridSlowStart) StartReceiveRound
//@   props C20
//@   ensures s.endPacketNumber == lastSent && s.currentMinRTT == 0 && s.rttSampleCount == 0 && s.started
//@   modifies s.endPacketNumber, s.currentMinRTT, s.rttSampleCount, s.started
//@ func (s *HybridSlowStart) IsEndOfRound
//@   props C20
//@   ensures iff(result, s.endPacketNumber < ack)
//@   modifies nothing
//@ func (s *HybridSlowStart) ShouldExitSlowStart
//@   props C20
//@   ensures [needs-found] implies(result, s.hystartFound)
//@   modifies s.endPacketNumber, s.currentMinRTT, s.rttSampleCount, s.started, s.hystartFound
//@ func (s *HybridSlowStart) OnPacketSent
//@   props C20
//@   ensures s.lastSentPacketNumber == packetNumber
//@   modifies s.lastSentPacketNumber
//@ func (s *HybridSlowStart) OnPacketAcked
//@   props C20
//@   modifies s.started
//@ func (s *HybridSlowStart) Restart
//@   props C20
//@   ensures !s.started && !s.hystartFound
//@   modifies s.started, s.hystartFound

// ---- Cubic (float32 / Cbrt curve): not decided; frames only ----
//@ func (c *Cubic) Reset
//@   trusted CUBIC curve state (float32/Cbrt) is outside the claim; frame only
//@   modifies c.*
//@ func (c *Cubic) OnApplicationLimited
//@   trusted CUBIC curve state (float32/Cbrt) is outside the claim; frame only
//@   modifies c.*
//@ func (c *Cubic) CongestionWindowAfterPacketLoss
//@   trusted CUBIC curve (float32) is outside the claim; frame only
//@   modifies c.*
//@ func (c *Cubic) CongestionWindowAfterAck
//@   trusted CUBIC curve (float32/Cbrt) is outside the claim; frame only
//@   modifies c.*

//@ func BandwidthFromDelta
//@   props C20
//@   requires delta != 0
//@   modifies nothing

// ---- cubicSender ----
//@ func (c *cubicSender) maxCongestionWindow
//@   props C20
//@   requires 0 <= c.maxDatagramSize && c.maxDatagramSize <= 65535
//@   ensures [value] result == 10000 * c.maxDatagramSize
//@   modifies nothing
//@ func (c *cubicSender) minCongestionWindow
//@   props C20
//@   requires 0 <= c.maxDatagramSize && c.maxDatagramSize <= 65535
//@   ensures [value] result == 2 * c.maxDatagramSize
//@   modifies nothing
//@ func (c *cubicSender) GetCongestionWindow
//@   props C20
//@   ensures [value] result == c.congestionWindow
//@   modifies nothing
//@ func (c *cubicSender) CanSend
//@   props C20
//@   ensures [gate] iff(result, bytesInFlight < c.congestionWindow)
//@   modifies nothing
//@ func (c *cubicSender) InRecovery
//@   props C20
//@   ensures [value] iff(result, c.largestAckedPacketNumber != -1 && c.largestAckedPacketNumber <= c.largestSentAtLastCutback)
//@   modifies nothing
//@ func (c *cubicSender) InSlowStart
//@   props C20
//@   ensures [value] iff(result, c.congestionWindow < c.slowStartThreshold)
//@   modifies nothing
//@ func (c *cubicSender) maybeQlogStateChange
//@   props C20
//@   modifies c.lastState

//@ func (c *cubicSender) isCwndLimited
//@   props C20
//@   requires c.ccInv() && 0 <= bytesInFlight && bytesInFlight <= 4611686018427387903
//@   ensures [value] iff(result, bytesInFlight >= c.congestionWindow ||
//@             (c.congestionWindow < c.slowStartThreshold && bytesInFlight > c.congestionWindow/2) ||
//@             c.congestionWindow - bytesInFlight <= 3*c.maxDatagramSize)
//@   modifies nothing

//@ func (c *cubicSender) maybeIncreaseCwnd
//@   props C20
//@   requires c.ccInv() && 0 <= priorInFlight && priorInFlight <= 4611686018427387903 && c.numAckedPackets <= 4611686018427387903
//@   let limited = priorInFlight >= old(c.congestionWindow) ||
//@             (old(c.congestionWindow) < old(c.slowStartThreshold) && priorInFlight > old(c.congestionWindow)/2) ||
//@             old(c.congestionWindow) - priorInFlight <= 3*c.maxDatagramSize
//@   ensures [inv] implies(c.reno, c.ccInv())
//@   ensures [cap] c.congestionWindow <= 10000*c.maxDatagramSize + c.maxDatagramSize
//@   ensures [grow-only-if-limited] implies(!limited, c.congestionWindow == old(c.congestionWindow))
//@   ensures [at-max] implies(old(c.congestionWindow) >= 10000*c.maxDatagramSize, c.congestionWindow == old(c.congestionWindow))
//@   ensures [no-shrink] implies(c.reno, c.congestionWindow >= old(c.congestionWindow))
//@   ensures [step] implies(c.reno, c.congestionWindow == old(c.congestionWindow) || c.congestionWindow == old(c.congestionWindow) + c.maxDatagramSize)
//@   ensures [slow-start] implies(limited && old(c.congestionWindow) < 10000*c.maxDatagramSize && old(c.congestionWindow) < old(c.slowStartThreshold), c.congestionWindow == old(c.congestionWindow) + c.maxDatagramSize)
//@   modifies c.congestionWindow, c.numAckedPackets, c.lastState, c.cubic.*

//@ func (c *cubicSender) OnPacketAcked
//@   props C20
//@   requires c.ccInv() && 0 <= priorInFlight && priorInFlight <= 4611686018427387903 && c.numAckedPackets <= 4611686018427387903
//@   ensures [inv] implies(c.reno, c.ccInv())
//@   ensures [cap] c.congestionWindow <= 10000*c.maxDatagramSize + c.maxDatagramSize
//@   ensures [no-shrink] implies(c.reno, c.congestionWindow >= old(c.congestionWindow))
//@   ensures [recovery-frozen] implies(max(ackedPacketNumber, old(c.largestAckedPacketNumber)) != -1 && max(ackedPacketNumber, old(c.largestAckedPacketNumber)) <= c.largestSentAtLastCutback, c.congestionWindow == old(c.congestionWindow))
//@   ensures [largest-acked] c.largestAckedPacketNumber == max(ackedPacketNumber, old(c.largestAckedPacketNumber))
//@   modifies c.congestionWindow, c.numAckedPackets, c.lastState, c.largestAckedPacketNumber, c.cubic.*, c.hybridSlowStart.started

//@ func (c *cubicSender) OnCongestionEvent
//@   props C20
//@   requires c.ccInv() && 0 <= lostBytes
//@   ensures [inv] implies(c.reno, c.ccInv())
//@   ensures [floor] c.congestionWindow >= 2*c.maxDatagramSize
//@   ensures [same-epoch] implies(packetNumber <= old(c.largestSentAtLastCutback), c.congestionWindow == old(c.congestionWindow) && c.largestSentAtLastCutback == old(c.largestSentAtLastCutback) && c.slowStartThreshold == old(c.slowStartThreshold))
//@   ensures [cut] implies(packetNumber > old(c.largestSentAtLastCutback), c.slowStartThreshold == c.congestionWindow && c.largestSentAtLastCutback == c.largestSentPacketNumber && c.numAckedPackets == 0)
//@   ensures [reno-cut] implies(packetNumber > old(c.largestSentAtLastCutback) && c.reno, c.congestionWindow <= old(c.congestionWindow) && 10*c.congestionWindow >= 7*old(c.congestionWindow) - 10)
//@   modifies c.congestionWindow, c.slowStartThreshold, c.largestSentAtLastCutback, c.numAckedPackets, c.lastCutbackExitedSlowstart, c.lastState, c.cubic.*, heap(atomic.Uint64.v)

//@ func (c *cubicSender) OnRetransmissionTimeout
//@   props C20
//@   requires c.ccInv()
//@   ensures [inv] c.ccInv()
//@   ensures [epoch-reset] c.largestSentAtLastCutback == -1
//@   ensures [collapse] implies(packetsRetransmitted, c.congestionWindow == 2*c.maxDatagramSize && c.slowStartThreshold == old(c.congestionWindow)/2)
//@   ensures [noop] implies(!packetsRetransmitted, c.congestionWindow == old(c.congestionWindow))
//@   modifies c.largestSentAtLastCutback, c.slowStartThreshold, c.congestionWindow, c.hybridSlowStart.started, c.hybridSlowStart.hystartFound, c.cubic.*

//@ func (c *cubicSender) SetMaxDatagramSize
//@   props C20
//@   requires c.ccInv() && s <= 1452
//@   panics when s < c.maxDatagramSize
//@   ensures [inv] c.ccInv()
//@   ensures [size] c.maxDatagramSize == s
//@   modifies c.maxDatagramSize, c.congestionWindow, c.pacer.maxDatagramSize

//@ func (c *cubicSender) BandwidthEstimate
//@   props C20
//@   requires c.ccInv()
//@   modifies nothing

//@ func (c *cubicSender) HasPacingBudget
//@   props C20
//@   requires c.ccInv() && c.pacer.pInv() && 0 <= now
//@   ensures [gate] iff(result, lastresult("(*pacer).Budget") >= c.maxDatagramSize)
//@   modifies nothing
//@ func (c *cubicSender) OnPacketSent
//@   props C20
//@   requires c.ccInv() && c.pacer.pInv() && 0 <= bytes && 0 <= sentTime
//@   ensures [window-untouched] c.congestionWindow == old(c.congestionWindow)
//@   ensures [largest] implies(isRetransmittable, c.largestSentPacketNumber == packetNumber)
//@   modifies c.largestSentPacketNumber, c.hybridSlowStart.lastSentPacketNumber, c.pacer.budgetAtLastSent, c.pacer.lastSentTime
//@ func (c *cubicSender) OnConnectionMigration
//@   props C20
//@   requires c.ccInv()
//@   ensures [reset] c.congestionWindow == c.initialCongestionWindow && c.slowStartThreshold == c.initialMaxCongestionWindow && c.largestSentAtLastCutback == -1
//@   modifies c.largestSentPacketNumber, c.largestAckedPacketNumber, c.largestSentAtLastCutback, c.lastCutbackExitedSlowstart, c.numAckedPackets, c.congestionWindow, c.slowStartThreshold, c.hybridSlowStart.started, c.hybridSlowStart.hystartFound, c.cubic.*
//@ func (c *cubicSender) MaybeExitSlowStart
//@   props C20
//@   requires c.ccInv()
//@   ensures [window-untouched] c.congestionWindow == old(c.congestionWindow)
//@   ensures [threshold] c.slowStartThreshold == old(c.slowStartThreshold) || c.slowStartThreshold == c.congestionWindow
//@   modifies c.slowStartThreshold, c.lastState, c.hybridSlowStart.endPacketNumber, c.hybridSlowStart.currentMinRTT, c.hybridSlowStart.rttSampleCount, c.hybridSlowStart.started, c.hybridSlowStart.hystartFound

// ---- pacer ----
//@ pred (p *pacer) pInv() = 1200 <= p.maxDatagramSize && p.maxDatagramSize <= 1452 && 0 <= p.budgetAtLastSent && p.budgetAtLastSent <= 18446744074 && 0 <= p.lastSentTime

//@ func (p *pacer) SetMaxDatagramSize
//@   props C20
//@   ensures p.maxDatagramSize == s
//@   modifies p.maxDatagramSize

//@ func (p *pacer) timeScaledBandwidth
//@   props C20
//@   requires p.pInv()
//@   ensures [nonneg] 0 <= result
//@   ensures [bound] result <= 10 * p.maxDatagramSize || result * 1000000000 <= 18446744073709551615
//@   modifies nothing

//@ func (p *pacer) maxBurstSize
//@   props C20
//@   requires p.pInv()
//@   ensures [at-least] result >= 10 * p.maxDatagramSize
//@   ensures [upper] result <= 18446744074
//@   modifies nothing

//@ func (p *pacer) Budget
//@   props C20
//@   requires p.pInv() && 0 <= now
//@   ensures [nonneg] 0 <= result
//@   ensures [burst-bound] result <= lastresult("(*pacer).maxBurstSize")
//@   ensures [upper] result <= 18446744074
//@   ensures [not-above-carry-without-time] implies(!(p.lastSentTime == 0) && now <= p.lastSentTime, result <= p.budgetAtLastSent)
//@   modifies nothing

//@ func (p *pacer) SentPacket
//@   props C20
//@   requires p.pInv() && 0 <= size && 0 <= sendTime
//@   ensures [inv] p.pInv()
//@   ensures [time] p.lastSentTime == sendTime
//@   modifies p.budgetAtLastSent, p.lastSentTime

//@ func (p *pacer) TimeUntilSend
//@   props C20
//@   requires p.pInv()
//@   ensures [now-if-budget] implies(p.budgetAtLastSent >= p.maxDatagramSize, result == 0)
//@   unclaimed safe:div0:0 divides by adjustedBandwidth(), a function value; it is 0 only when the smoothed RTT exceeds cwnd*1e9 ns (>= 40 min), see DESIGN.md observations
//@   unclaimed safe:div0:1 same divisor
//@   modifies nothing

// ---- lemmas (from the contracts above) ----

// Two losses among packets sent before the first cut-back shrink the window once.
//@ lemma oneCutPerEpoch
//@   props C20
//@   var c *cubicSender
//@   var p1 protocol.PacketNumber
//@   var p2 protocol.PacketNumber
//@   var l1 protocol.ByteCount
//@   var l2 protocol.ByteCount
//@   var f1 protocol.ByteCount
//@   var f2 protocol.ByteCount
//@   assume c.ccInv() && c.reno && 0 <= l1 && 0 <= l2
//@   assume p1 <= c.largestSentPacketNumber && p2 <= c.largestSentPacketNumber
//@   step c.OnCongestionEvent(p1, l1, f1)
//@   step mid = c.congestionWindow
//@   step c.OnCongestionEvent(p2, l2, f2)
//@   show [once] implies(p1 > old(c.largestSentAtLastCutback), c.congestionWindow == mid)

// Acknowledgements never shrink the window; a loss after them never raises it.
//@ lemma ackThenLoss
//@   props C20
//@   var c *cubicSender
//@   var a protocol.PacketNumber
//@   var ab protocol.ByteCount
//@   var pf protocol.ByteCount
//@   var t monotime.Time
//@   assume c.ccInv() && c.reno && 0 <= pf && pf <= 4611686018427387903 && c.numAckedPackets <= 4611686018427387903
//@   step w0 = c.congestionWindow
//@   step c.OnPacketAcked(a, ab, pf, t)
//@   show [ack-no-shrink] c.congestionWindow >= w0
//@   show [bounds] 2*c.maxDatagramSize <= c.congestionWindow && c.congestionWindow <= 10000*c.maxDatagramSize + c.maxDatagramSize

// ---------------- construction (C20: the window invariant holds from the first moment; the mode is the one asked for) ----------------
//@ func NewCubic
//@   trusted CUBIC curve state (float32/Cbrt) is outside the claim
//@   ensures result != nil
//@   fresh
//@   modifies nothing
//@ func newPacer
//@   trusted stores the bandwidth callback (a method value) and fills the bucket to one burst; pacing itself is under contract (Budget, SentPacket, TimeUntilSend)
//@   ensures result != nil
//@   fresh
//@   modifies nothing
//@ func newCubicSender
//@   props C20
//@   requires 1200 <= initialMaxDatagramSize && initialMaxDatagramSize <= 1452 && initialCongestionWindow == 32 * initialMaxDatagramSize && initialMaxCongestionWindow == 10000 * initialMaxDatagramSize
//@   ensures [mode-as-requested] result != nil && result.reno == reno
//@   ensures [starts-in-slow-start-at-the-initial-window] result.congestionWindow == initialCongestionWindow && result.maxDatagramSize == initialMaxDatagramSize && result.initialMaxCongestionWindow == initialMaxCongestionWindow
//@   ensures [window-invariant-from-the-start] 2 * result.maxDatagramSize <= result.congestionWindow && result.congestionWindow <= result.initialMaxCongestionWindow
//@   modifies nothing
//@ func NewCubicSender
//@   props C20
//@   requires 1200 <= initialMaxDatagramSize && initialMaxDatagramSize <= 1452
//@   ensures [mode-as-requested] result != nil && result.reno == reno
//@   ensures [window-invariant-from-the-start] 2 * result.maxDatagramSize <= result.congestionWindow && result.congestionWindow <= result.initialMaxCongestionWindow && result.maxDatagramSize == initialMaxDatagramSize
//@   modifies nothing
