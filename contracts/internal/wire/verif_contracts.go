//go:build verif

package wire

// Hand-written contracts for internal/wire (property C08 and the frame helpers other properties rely on).

//@ func replaceUnexpectedEOF
//@   props C08
//@   ensures [nil-iff] iff(result == nil, e == nil)
//@   modifies nothing

//@ func (f *PingFrame) Append
//@   props C08
//@   arith bv
//@   ensures [flen] result1 == nil && len(result0) == len(b) + 1
//@   modifies b[*]
//@ func (f *PingFrame) Length
//@   props C08
//@   arith bv
//@   ensures [flen] result == 1
//@   modifies nothing
//@ func (f *HandshakeDoneFrame) Append
//@   props C08
//@   arith bv
//@   ensures [flen] result1 == nil && len(result0) == len(b) + 1
//@   modifies b[*]
//@ func (f *HandshakeDoneFrame) Length
//@   props C08
//@   arith bv
//@   ensures [flen] result == 1
//@   modifies nothing

// range rejections of RFC 9000 §19.11 / §19.14 (iff: everything within range is accepted)
//@ func parseMaxStreamsFrame
//@   ensures [range-iff] iff(result2 == nil, len(b) > 0 && len(b) >= quicvarint.plen(b[0]) && quicvarint.vdec(b) <= 1152921504606846976)
//@   ensures [value] implies(result2 == nil, uint64(result0.MaxStreamNum) == quicvarint.vdec(b) && result1 == quicvarint.plen(b[0]))
//@ func parseStreamsBlockedFrame
//@   ensures [range-iff] iff(result2 == nil, len(b) > 0 && len(b) >= quicvarint.plen(b[0]) && quicvarint.vdec(b) <= 1152921504606846976)
//@   ensures [value] implies(result2 == nil, uint64(result0.StreamLimit) == quicvarint.vdec(b) && result1 == quicvarint.plen(b[0]))
