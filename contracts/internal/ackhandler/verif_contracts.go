//go:build verif

package ackhandler

// Contracts for internal/ackhandler (properties C05, C06, C07, C14).

// ---------------- assumed contracts on the slices package (pointwise, no sequence terms) ----------------
//@ extern slices.Insert
//@   requires 0 <= i && i <= len(s)
//@   ensures [len]    len(result) == len(s) + len(v)
//@   ensures [before] forall(k, 0, i, result[k] == old(s[k]), trig(result, k))
//@   ensures [new]    forall(k, 0, len(v), result[i+k] == old(v[k]), trig(v, k))
//@   ensures [after]  forall(k, i + len(v), len(s) + len(v), result[k] == old(s[k-len(v)]), trig(result, k))
//@   ensures [after-by-old]  forall(m, i, len(s), result[m+len(v)] == old(s[m]), old(trig(s, m)))
//@   ensures [before-by-old] forall(m, 0, i, result[m] == old(s[m]), old(trig(s, m)))
//@   ensures [array]  samearray(result, s) || isfresh(result)
//@   modifies s[*]

//@ extern slices.Delete
//@   requires 0 <= i && i <= j && j <= len(s)
//@   ensures [len]    len(result) == len(s) - (j - i)
//@   ensures [before] forall(k, 0, i, result[k] == old(s[k]), trig(result, k))
//@   ensures [after]  forall(k, i, len(s) - (j - i), result[k] == old(s[k + (j - i)]), trig(result, k))
//@   ensures [after-by-old]  forall(m, j, len(s), result[m - (j - i)] == old(s[m]), old(trig(s, m)))
//@   ensures [before-by-old] forall(m, 0, i, result[m] == old(s[m]), old(trig(s, m)))
//@   ensures [array]  samearray(result, s)
//@   modifies s[*]

// ---------------- receivedPacketHistory ----------------
// well-formedness of the range list: non-empty intervals, strictly ascending, non-adjacent
//@ pred (h *receivedPacketHistory) w1() =
//@      forall(k, 0, len(h.ranges), 0 <= h.ranges[k].Start && h.ranges[k].Start <= h.ranges[k].End && h.ranges[k].End <= 4611686018427387903, trig(h.ranges, k))
//@ pred (h *receivedPacketHistory) w2() = forall2(j, k, 0, len(h.ranges), h.ranges[j].End + 1 < h.ranges[k].Start, trig(h.ranges, j), trig(h.ranges, k))
//@ pred (h *receivedPacketHistory) rInv() = h.w1() && h.w2()

//@ spec covered(h *receivedPacketHistory, q int64) bool = exists(k, 0, len(h.ranges), h.ranges[k].Start <= q && q <= h.ranges[k].End, trig(h.ranges, k))

//@ func (h *receivedPacketHistory) IsPotentiallyDuplicate
//@   props C07
//@   requires h.rInv()
//@   ensures [iff] iff(result, p < h.deletedBelow || covered(h, p))
//@   modifies nothing
//@ loop (h *receivedPacketHistory) IsPotentiallyDuplicate #0
//@   invariant -1 <= i && i < len(h.ranges)
//@   invariant forall(k, i+1, len(h.ranges), p < h.ranges[k].Start, trig(h.ranges, k))
//@   invariant p >= h.deletedBelow
//@   decreases i + 1

//@ func (h *receivedPacketHistory) DeleteBelow
//@   props C07
//@   requires h.rInv()
//@   ensures [monotone] h.deletedBelow == max(old(h.deletedBelow), p)
//@   ensures [stale-noop] implies(p < old(h.deletedBelow), len(h.ranges) == old(len(h.ranges)))
//@   ensures [inv] h.rInv()
//@   ensures [floor] implies(p >= old(h.deletedBelow), forall(k, 0, len(h.ranges), h.ranges[k].Start >= p, trig(h.ranges, k)))
//@   ensures [keeps-above] forall(q, implies(q >= p && old(covered(h, q)), covered(h, q)))
//@   modifies h.deletedBelow, h.ranges, h.ranges[*]
//@ loop (h *receivedPacketHistory) DeleteBelow #0
//@   invariant 0 <= i && i <= len(h.ranges) && idx == i - 1 && len(h.ranges) >= 1
//@   invariant forall(k, 0, i, h.ranges[k].End < p, trig(h.ranges, k))
//@   modifies nothing

//@ func (h *receivedPacketHistory) addToRanges
//@   props C07
//@   requires h.rInv() && 0 <= p && p <= 4611686018427387903
//@   ensures [inv-w1] h.w1()
//@   ensures [inv-w2] h.w2()
//@   ensures [covered] covered(h, p)
//@   ensures [new-iff] iff(result, !old(covered(h, p)))
//@   ensures [keeps] forall(q, implies(old(covered(h, q)), covered(h, q)))
//@   ensures [only-p] forall(q, implies(covered(h, q) && q != p, old(covered(h, q))))
//@   ensures [len] len(h.ranges) <= old(len(h.ranges)) + 1
//@   ensures [array] samearray(h.ranges, old(h.ranges)) || isfresh(h.ranges)
//@   modifies h.ranges, h.ranges[*]
//@ loop (h *receivedPacketHistory) addToRanges #0
//@   invariant -1 <= i && i < len(h.ranges) && len(h.ranges) >= 1
//@   invariant forall(k, i+1, len(h.ranges), p + 1 < h.ranges[k].Start, trig(h.ranges, k))
//@   modifies nothing
//@   decreases i + 1

//@ func (h *receivedPacketHistory) ReceivedPacket
//@   props C07
//@   requires h.rInv() && 0 <= p && p <= 4611686018427387903
//@   ensures [inv] h.rInv()
//@   ensures [stale] implies(p < old(h.deletedBelow), !result && len(h.ranges) == old(len(h.ranges)))
//@   ensures [new-iff] implies(p >= old(h.deletedBelow), iff(result, !old(covered(h, p))))
//@   ensures [bounded] len(h.ranges) <= max(old(len(h.ranges)), 64)
//@   ensures [floor-kept] h.deletedBelow == old(h.deletedBelow)
//@   modifies h.ranges, h.ranges[*]

//@ func (h *receivedPacketHistory) HighestMissingUpTo
//@   props C07
//@   requires h.rInv() && 0 <= p && p <= 4611686018427387903
//@   ensures [missing] implies(result != -1, !covered(h, result) && result <= p)
//@   ensures [floor] implies(result != -1 && h.deletedBelow != -1, result >= h.deletedBelow || !covered(h, p))
//@   modifies nothing
//@ loop (h *receivedPacketHistory) HighestMissingUpTo #0
//@   invariant -1 <= i && i < len(h.ranges) && len(h.ranges) >= 1
//@   invariant 0 <= p && p <= old(p) && p <= h.ranges[len(h.ranges)-1].End
//@   invariant implies(i >= 0, p <= h.ranges[i].End)
//@   invariant forall(k, i+1, len(h.ranges), p < h.ranges[k].Start, trig(h.ranges, k))
//@   decreases i + 1

// ---------------- receivedPacketTracker (Initial / Handshake) ----------------
//@ func (h *receivedPacketTracker) ReceivedPacket
//@   props C07
//@   requires h.packetHistory.rInv() && 0 <= pn && pn <= 4611686018427387903 && h.ect0 < 9223372036854775807 && h.ect1 < 9223372036854775807 && h.ecnce < 9223372036854775807
//@   ensures [inv] h.packetHistory.rInv()
//@   ensures [dup-error] implies(result != nil, h.ect0 == old(h.ect0) && h.ect1 == old(h.ect1) && h.ecnce == old(h.ecnce) && h.hasNewAck == old(h.hasNewAck))
//@   ensures [dup-iff] iff(result != nil, pn < old(h.packetHistory.deletedBelow) || old(covered(&h.packetHistory, pn)))
//@   ensures [ack-now] implies(result == nil && ackEliciting, h.hasNewAck)
//@   ensures [ack-kept] implies(result == nil && !ackEliciting, h.hasNewAck == old(h.hasNewAck))
//@   ensures [ecn] implies(result == nil, h.ect0 == old(h.ect0) + ite(ecn == 3, 1, 0) && h.ect1 == old(h.ect1) + ite(ecn == 2, 1, 0) && h.ecnce == old(h.ecnce) + ite(ecn == 4, 1, 0))
//@   ensures [floor-kept] h.packetHistory.deletedBelow == old(h.packetHistory.deletedBelow)
//@   modifies h.ect0, h.ect1, h.ecnce, h.hasNewAck, h.packetHistory.ranges, h.packetHistory.ranges[*]

//@ func (h *receivedPacketTracker) IsPotentiallyDuplicate
//@   props C07
//@   requires h.packetHistory.rInv()
//@   ensures [iff] iff(result, pn < h.packetHistory.deletedBelow || covered(&h.packetHistory, pn))
//@   modifies nothing

// ---------------- appDataReceivedPacketTracker ----------------
//@ pred (h *appDataReceivedPacketTracker) tInv() = h.packetHistory.rInv() && h.maxAckDelay >= 0 && h.maxAckDelay <= 4611686018427387903 &&
//@      0 <= h.ackElicitingPacketsReceivedSinceLastAck && h.ackElicitingPacketsReceivedSinceLastAck < 4611686018427387903 &&
//@      h.ect0 < 9223372036854775807 && h.ect1 < 9223372036854775807 && h.ecnce < 9223372036854775807 &&
//@      implies(h.lastAck != nil, h.lastAck.rangesValid())

//@ func (h *appDataReceivedPacketTracker) IgnoreBelow
//@   props C07
//@   requires h.tInv()
//@   ensures [monotone] h.ignoreBelow == max(old(h.ignoreBelow), pn)
//@   ensures [history-monotone] h.packetHistory.deletedBelow >= old(h.packetHistory.deletedBelow)
//@   ensures [forwarded] implies(pn > old(h.ignoreBelow), h.packetHistory.deletedBelow == max(old(h.packetHistory.deletedBelow), pn))
//@   ensures [inv] h.packetHistory.rInv()
//@   modifies h.ignoreBelow, h.packetHistory.deletedBelow, h.packetHistory.ranges, h.packetHistory.ranges[*]

//@ func (h *appDataReceivedPacketTracker) isMissing
//@   props C07
//@   requires h.tInv()
//@   ensures [iff] iff(result, h.lastAck != nil && p >= h.ignoreBelow && p < h.lastAck.AckRanges[0].Largest && !wire.ackcovers(h.lastAck, p))
//@   modifies nothing

//@ func (h *appDataReceivedPacketTracker) hasNewMissingPackets
//@   props C07
//@   requires h.tInv() && 0 <= h.largestObserved && h.largestObserved <= 4611686018427387903
//@   ensures [needs-last-ack] implies(result, h.lastAck != nil && h.largestObserved >= 1)
//@   let hm = lastresult("(*receivedPacketHistory).HighestMissingUpTo")
//@   ensures [new-gap-iff] iff(result, h.lastAck != nil && h.largestObserved >= 1 && hm != -1 && hm >= h.lastAck.AckRanges[0].Largest)
//@   modifies nothing

//@ func (h *appDataReceivedPacketTracker) shouldQueueACK
//@   props C07
//@   requires h.tInv() && 0 <= h.largestObserved && h.largestObserved <= 4611686018427387903
//@   ensures [missing] implies(wasMissing, result)
//@   ensures [second] implies(h.ackElicitingPacketsReceivedSinceLastAck >= 2, result)
//@   ensures [ce] implies(ecn == 4, result)
//@   modifies nothing

//@ func (h *appDataReceivedPacketTracker) ReceivedPacket
//@   props C07
//@   requires h.tInv() && 0 <= pn && pn <= 4611686018427387903 && 0 <= rcvTime && rcvTime <= 4611686018427387903 && 0 <= h.largestObserved && h.largestObserved <= 4611686018427387903
//@   requires h.ackElicitingPacketsReceivedSinceLastAck < 4611686018427387902 && h.ect0 < 9223372036854775806 && h.ect1 < 9223372036854775806 && h.ecnce < 9223372036854775806
//@   ensures [dup-untouched] implies(result != nil, h.ackQueued == old(h.ackQueued) && h.ackAlarm == old(h.ackAlarm) && h.largestObserved == old(h.largestObserved) && h.ackElicitingPacketsReceivedSinceLastAck == old(h.ackElicitingPacketsReceivedSinceLastAck))
//@   ensures [dup-iff] iff(result != nil, pn < old(h.packetHistory.deletedBelow) || old(covered(&h.packetHistory, pn)))
//@   ensures [deadline] implies(result == nil && ackEliciting, h.ackQueued || (h.ackAlarm != 0 && h.ackAlarm <= rcvTime + h.maxAckDelay) || rcvTime + h.maxAckDelay == 0)
//@   ensures [second-packet] implies(result == nil && ackEliciting && old(h.ackElicitingPacketsReceivedSinceLastAck) >= 1, h.ackQueued)
//@   ensures [queued-stays] implies(old(h.ackQueued), h.ackQueued)
//@   ensures [largest] implies(result == nil, h.largestObserved == max(old(h.largestObserved), pn))
//@   ensures [inv] h.packetHistory.rInv()
//@   modifies h.ect0, h.ect1, h.ecnce, h.hasNewAck, h.packetHistory.ranges, h.packetHistory.ranges[*], h.largestObserved, h.largestObservedRcvdTime, h.ackElicitingPacketsReceivedSinceLastAck, h.ackQueued, h.ackAlarm
