//go:build verif

package ackhandler

// Contracts for internal/ackhandler (properties C05, C06, C07, C14).

// ---------------- assumed contracts on the slices package (pointwise, no sequence terms) ----------------
//@ extern slices.Insert
//@   requires 0 <= i && i <= len(s)
//@   ensures [len]    len(result) == len(s) + len(v)
//@   ensures [before] forall(k, 0, i, result[k] == old(s[k]), trig(result, k))
//@   ensures [new]    forall(k, 0, len(v), result[i+k] == old(v[k]), trig(v, k))
//@   ensures [after]  forall(k, i + len(v), len(s) + len(v), result[k] == old(s[k-len(v)]), trig(result, k))
//@   ensures [after-by-old]  forall(m, i, len(s), result[m+len(v)] == old(s[m]), old(trig(s, m)))
//@   ensures [before-by-old] forall(m, 0, i, result[m] == old(s[m]), old(trig(s, m)))
//@   ensures [array]  samearray(result, s) || isfresh(result)
//@   modifies s[*]

//@ extern slices.Delete
//@   requires 0 <= i && i <= j && j <= len(s)
//@   ensures [len]    len(result) == len(s) - (j - i)
//@   ensures [before] forall(k, 0, i, result[k] == old(s[k]), trig(result, k))
//@   ensures [after]  forall(k, i, len(s) - (j - i), result[k] == old(s[k + (j - i)]), trig(result, k))
//@   ensures [after-by-old]  forall(m, j, len(s), result[m - (j - i)] == old(s[m]), old(trig(s, m)))
//@   ensures [before-by-old] forall(m, 0, i, result[m] == old(s[m]), old(trig(s, m)))
//@   ensures [array]  samearray(result, s)
//@   modifies s[*]

// ---------------- receivedPacketHistory ----------------
// well-formedness of the range list: non-empty intervals, strictly ascending, non-adjacent
//@ pred (h *receivedPacketHistory) w1() =
//@      forall(k, 0, len(h.ranges), 0 <= h.ranges[k].Start && h.ranges[k].Start <= h.ranges[k].End && h.ranges[k].End <= 4611686018427387903, trig(h.ranges, k))
//@ pred (h *receivedPacketHistory) w2() = forall2(j, k, 0, len(h.ranges), h.ranges[j].End + 1 < h.ranges[k].Start, trig(h.ranges, j), trig(h.ranges, k))
//@ pred (h *receivedPacketHistory) rInv() = h.w1() && h.w2()

//@ spec covered(h *receivedPacketHistory, q int64) bool = exists(k, 0, len(h.ranges), h.ranges[k].Start <= q && q <= h.ranges[k].End)

//@ func (h *receivedPacketHistory) IsPotentiallyDuplicate
//@   props C07
//@   requires h.rInv()
//@   ensures [iff] iff(result, p < h.deletedBelow || covered(h, p))
//@   modifies nothing
//@ loop (h *receivedPacketHistory) IsPotentiallyDuplicate #0
//@   invariant -1 <= i && i < len(h.ranges)
//@   invariant forall(k, i+1, len(h.ranges), p < h.ranges[k].Start, trig(h.ranges, k))
//@   invariant p >= h.deletedBelow
//@   decreases i + 1

//@ func (h *receivedPacketHistory) DeleteBelow
//@   props C07
//@   requires h.rInv()
//@   ensures [monotone] h.deletedBelow == max(old(h.deletedBelow), p)
//@   ensures [stale-noop] implies(p < old(h.deletedBelow), len(h.ranges) == old(len(h.ranges)))
//@   ensures [inv] h.rInv()
//@   ensures [floor] implies(p >= old(h.deletedBelow), forall(k, 0, len(h.ranges), h.ranges[k].Start >= p, trig(h.ranges, k)))
//@   ensures [keeps-above] forall(q, implies(q >= p && old(covered(h, q)), covered(h, q)))
//@   modifies h.deletedBelow, h.ranges, h.ranges[*]
//@ loop (h *receivedPacketHistory) DeleteBelow #0
//@   invariant 0 <= i && i <= len(h.ranges) && idx == i - 1 && len(h.ranges) >= 1
//@   invariant forall(k, 0, i, h.ranges[k].End < p, trig(h.ranges, k))
//@   modifies nothing

//@ func (h *receivedPacketHistory) addToRanges
//@   props C07
//@   requires h.rInv() && 0 <= p && p <= 4611686018427387903
//@   ensures [inv-w1] h.w1()
//@   ensures [inv-w2] h.w2()
//@   ensures [covered] covered(h, p)
//@   ensures [new-iff] iff(result, !old(covered(h, p)))
//@   ensures [keeps] forall(q, implies(old(covered(h, q)), covered(h, q)))
//@   ensures [only-p] forall(q, implies(covered(h, q) && q != p, old(covered(h, q))))
//@   ensures [len] len(h.ranges) <= old(len(h.ranges)) + 1
//@   modifies h.ranges, h.ranges[*]
//@ loop (h *receivedPacketHistory) addToRanges #0
//@   invariant -1 <= i && i < len(h.ranges) && len(h.ranges) >= 1
//@   invariant forall(k, i+1, len(h.ranges), p + 1 < h.ranges[k].Start, trig(h.ranges, k))
//@   modifies nothing
//@   decreases i + 1
