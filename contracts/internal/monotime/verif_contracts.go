//go:build verif

package monotime

// monotime.Time is an int64; its methods are one-line arithmetic and are inlined (their real bodies are executed
// symbolically at every call site).

//@ func (t Time) Sub
//@   inline
//@ func (t Time) Add
//@   inline
//@ func (t Time) After
//@   inline
//@ func (t Time) Before
//@   inline
//@ func (t Time) IsZero
//@   inline
//@ func (t Time) Equal
//@   inline

//@ func (t Time) ToTime
//@   modifies nothing
