//go:build verif

package quic

// Contracts for the root package.

//@ func (s *baseServer) validateToken
//@   props C14
//@   requires s.config != nil
//@   ensures [nil-token] implies(token == nil, !result)
//@   ensures [address] implies(result, token != nil && ufb("addrmatch", token, addr))
//@   ensures [lifetime] implies(result, lastresult("Since") <= ite(token.IsRetryToken, lastresult("(*Config).maxRetryTokenAge"), s.maxTokenAge))
//@   modifies nothing

//@ func (c *Config) maxRetryTokenAge
//@   props C14
//@   modifies nothing
//@ func (c *Config) handshakeTimeout
//@   props C14
//@   modifies nothing
