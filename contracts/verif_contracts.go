//go:build verif

package quic

// Contracts for the root package.

//@ func (s *baseServer) validateToken
//@   props C14
//@   requires s.config != nil
//@   ensures [nil-token] implies(token == nil, !result)
//@   ensures [address] implies(result, token != nil && ufb("addrmatch", token, addr))
//@   ensures [lifetime] implies(result, lastresult("Since") <= ite(token.IsRetryToken, lastresult("(*Config).maxRetryTokenAge"), s.maxTokenAge))
//@   modifies nothing

//@ func (c *Config) maxRetryTokenAge
//@   props C14
//@   modifies nothing
//@ func (c *Config) handshakeTimeout
//@   props C14
//@   modifies nothing

// ---------------- incoming streams map (C15) ----------------
// concurrency bound: the streams still open plus the credit not yet used never exceed the configured maximum
//@ pred (m *incomingStreamsMap[T]) imInv() = m.streams != nil && 0 <= m.nextStreamToAccept && m.nextStreamToAccept <= m.nextStreamToOpen && m.nextStreamToOpen <= 4611686018427387907 &&
//@      m.nextStreamToAccept % 4 == m.nextStreamToOpen % 4 && -1 <= m.maxStream && m.maxStream <= 4611686018427387903 && (m.maxStream == -1 || m.maxStream % 4 == m.nextStreamToOpen % 4) &&
//@      m.maxNumStreams <= 1152921504606846976 && 0 <= len(m.streams) &&
//@      forall(k, int64, implies(k >= m.nextStreamToOpen, !has(m.streams, k))) &&
//@      (m.maxStream < m.nextStreamToOpen || len(m.streams) + (m.maxStream - m.nextStreamToOpen) / 4 + 1 <= m.maxNumStreams)

//@ func (m *incomingStreamsMap[T]) GetOrOpenStream
//@   props C15
//@   requires m.imInv() && 0 <= id && id % 4 == m.nextStreamToOpen % 4
//@   ensures [limit-iff] iff(result1 != nil, id > old(m.maxStream))
//@   ensures [limit-code] implies(result1 != nil, iserr(result1, qerr.StreamLimitError) && m.nextStreamToOpen == old(m.nextStreamToOpen) && len(m.streams) == old(len(m.streams)))
//@   ensures [opens] implies(result1 == nil, m.nextStreamToOpen == max(old(m.nextStreamToOpen), id + 4))
//@   ensures [count] implies(result1 == nil && id >= old(m.nextStreamToOpen), len(m.streams) == old(len(m.streams)) + (id + 4 - old(m.nextStreamToOpen)) / 4)
//@   ensures [inv] m.imInv()
//@   ensures [max-kept] m.maxStream == old(m.maxStream) && m.maxNumStreams == old(m.maxNumStreams) && m.nextStreamToAccept == old(m.nextStreamToAccept)
//@   modifies m.streams[*], m.nextStreamToOpen
//@ loop (m *incomingStreamsMap[T]) GetOrOpenStream #0
//@   invariant old(m.nextStreamToOpen) <= newNum && newNum <= id + 4 && newNum % 4 == id % 4
//@   invariant len(m.streams) == old(len(m.streams)) + (newNum - old(m.nextStreamToOpen)) / 4
//@   invariant forall(k, int64, implies(k >= newNum, !has(m.streams, k)))
//@   invariant m.nextStreamToOpen == old(m.nextStreamToOpen) && m.streams == old(m.streams)
//@   modifies m.streams[*]
//@   decreases id + 4 - newNum

//@ func (m *incomingStreamsMap[T]) deleteStream
//@   props C15
//@   requires m.imInv() && 0 <= id
//@   ensures [unknown] iff(result != nil, !old(has(m.streams, id)) || (id >= m.nextStreamToAccept && old(m.streams[id].shouldDelete)))
//@   ensures [error-noop] implies(result != nil, len(m.streams) == old(len(m.streams)) && m.maxStream == old(m.maxStream))
//@   ensures [deferred] implies(result == nil && id >= m.nextStreamToAccept, has(m.streams, id) && m.streams[id].shouldDelete && len(m.streams) == old(len(m.streams)) && m.maxStream == old(m.maxStream))
//@   ensures [deleted] implies(result == nil && id < m.nextStreamToAccept, !has(m.streams, id) && len(m.streams) == old(len(m.streams)) - 1)
//@   ensures [credit-monotone] m.maxStream >= old(m.maxStream)
//@   ensures [credit-exact] implies(m.maxStream != old(m.maxStream), m.maxStream == m.nextStreamToOpen + 4 * (m.maxNumStreams - len(m.streams) - 1))
//@   ensures [inv] m.imInv()
//@   modifies m.streams[*], m.maxStream

//@ func (m *incomingStreamsMap[T]) DeleteStream
//@   props C15
//@   requires m.imInv() && 0 <= id
//@   ensures [state-error] implies(result != nil, iserr(result, qerr.StreamStateError) && len(m.streams) == old(len(m.streams)) && m.maxStream == old(m.maxStream))
//@   ensures [credit-monotone] m.maxStream >= old(m.maxStream)
//@   ensures [inv] m.imInv()
//@   modifies m.streams[*], m.maxStream

// ---------------- outgoing streams map (C15) ----------------
//@ pred (m *outgoingStreamsMap[T]) omInv() = m.streams != nil && 0 <= m.nextStream && m.nextStream <= 4611686018427387907 && -1 <= m.maxStream && m.maxStream <= 4611686018427387903 &&
//@      forall(k, int64, implies(k >= m.nextStream, !has(m.streams, k)))

//@ func (m *outgoingStreamsMap[T]) openStream
//@   props C15
//@   requires m.omInv() && m.nextStream <= 4611686018427387903
//@   ensures [id] m.nextStream == old(m.nextStream) + 4 && has(m.streams, old(m.nextStream)) && m.streams[old(m.nextStream)] == result
//@   ensures [inv] m.omInv()
//@   ensures [limit-kept] m.maxStream == old(m.maxStream) && m.blockedSent == old(m.blockedSent)
//@   modifies m.streams[*], m.nextStream

//@ func (m *outgoingStreamsMap[T]) maybeSendBlockedFrame
//@   props C15
//@   requires m.maxStream >= -1
//@   ensures [once] m.blockedSent
//@   ensures [frame-iff] iff(called("field:queueStreamIDBlocked") == 1, !old(m.blockedSent))
//@   modifies m.blockedSent

//@ func (m *outgoingStreamsMap[T]) OpenStream
//@   props C15
//@   requires m.omInv()
//@   ensures [opens-iff] iff(result1 == nil, old(m.closeErr) == nil && old(len(m.openQueue)) == 0 && old(m.nextStream) <= old(m.maxStream))
//@   ensures [id] implies(result1 == nil, m.nextStream == old(m.nextStream) + 4 && has(m.streams, old(m.nextStream)) && old(m.nextStream) <= m.maxStream)
//@   ensures [refused] implies(result1 != nil, m.nextStream == old(m.nextStream) && len(m.streams) == old(len(m.streams)))
//@   ensures [never-beyond-limit] m.nextStream - 4 <= m.maxStream || m.nextStream == old(m.nextStream)
//@   ensures [inv] m.omInv()
//@   modifies m.streams[*], m.nextStream, m.blockedSent

//@ func (m *outgoingStreamsMap[T]) GetStream
//@   props C15
//@   requires m.omInv()
//@   ensures [never-opened] iff(result1 != nil, id >= m.nextStream)
//@   ensures [code] implies(result1 != nil, iserr(result1, qerr.StreamStateError))
//@   modifies nothing

//@ func (m *outgoingStreamsMap[T]) DeleteStream
//@   props C15
//@   requires m.omInv()
//@   ensures [unknown-iff] iff(result != nil, !old(has(m.streams, id)))
//@   ensures [code] implies(result != nil, iserr(result, qerr.StreamStateError) && len(m.streams) == old(len(m.streams)))
//@   ensures [deleted] implies(result == nil, !has(m.streams, id) && len(m.streams) == old(len(m.streams)) - 1)
//@   ensures [inv] m.omInv()
//@   modifies m.streams[*]

//@ func (m *outgoingStreamsMap[T]) maybeUnblockOpenSync
//@   props C15
//@   modifies nothing

//@ func (m *outgoingStreamsMap[T]) SetMaxStream
//@   props C15
//@   requires m.omInv() && -1 <= id && id <= 4611686018427387903
//@   ensures [monotone] m.maxStream == max(old(m.maxStream), id)
//@   ensures [epoch] implies(id <= old(m.maxStream), m.blockedSent == old(m.blockedSent))
//@   ensures [inv] m.omInv()
//@   modifies m.maxStream, m.blockedSent

// ---------------- streamsMap dispatch (C15) ----------------
//@ pred (m *streamsMap) smInv() = (m.perspective == protocol.PerspectiveServer || m.perspective == protocol.PerspectiveClient) &&
//@      m.outgoingBidiStreams != nil && m.outgoingUniStreams != nil && m.incomingBidiStreams != nil && m.incomingUniStreams != nil &&
//@      m.outgoingBidiStreams.omInv() && m.outgoingUniStreams.omInv() && m.incomingBidiStreams.imInv() && m.incomingUniStreams.imInv() &&
//@      m.incomingBidiStreams.nextStreamToOpen % 4 == ite(m.perspective == protocol.PerspectiveServer, 0, 1) &&
//@      m.incomingUniStreams.nextStreamToOpen % 4 == ite(m.perspective == protocol.PerspectiveServer, 2, 3)

//@ func (m *streamsMap) getSendStream
//@   props C15
//@   requires m.smInv() && 0 <= id && id <= 4611686018427387903
//@   let mine = ite(id % 2 == 0, protocol.PerspectiveClient, protocol.PerspectiveServer) == m.perspective
//@   ensures [direction] implies(id % 4 >= 2 && !mine, iserr(result1, qerr.StreamStateError))
//@   ensures [never-opened] implies(mine && id % 4 >= 2 && id >= old(m.outgoingUniStreams.nextStream), iserr(result1, qerr.StreamStateError))
//@   ensures [never-opened-bidi] implies(mine && id % 4 < 2 && id >= old(m.outgoingBidiStreams.nextStream), iserr(result1, qerr.StreamStateError))
//@   ensures [limit] implies(!mine && id % 4 < 2 && id > old(m.incomingBidiStreams.maxStream), iserr(result1, qerr.StreamLimitError))
//@   modifies m.incomingBidiStreams.streams[*], m.incomingBidiStreams.nextStreamToOpen

//@ func (m *streamsMap) getReceiveStream
//@   props C15
//@   requires m.smInv() && 0 <= id && id <= 4611686018427387903
//@   let mine = ite(id % 2 == 0, protocol.PerspectiveClient, protocol.PerspectiveServer) == m.perspective
//@   ensures [direction] implies(id % 4 >= 2 && mine, iserr(result1, qerr.StreamStateError))
//@   ensures [never-opened-bidi] implies(mine && id % 4 < 2 && id >= old(m.outgoingBidiStreams.nextStream), iserr(result1, qerr.StreamStateError))
//@   ensures [limit-uni] implies(!mine && id % 4 >= 2 && id > old(m.incomingUniStreams.maxStream), iserr(result1, qerr.StreamLimitError))
//@   ensures [limit-bidi] implies(!mine && id % 4 < 2 && id > old(m.incomingBidiStreams.maxStream), iserr(result1, qerr.StreamLimitError))
//@   modifies m.incomingBidiStreams.streams[*], m.incomingBidiStreams.nextStreamToOpen, m.incomingUniStreams.streams[*], m.incomingUniStreams.nextStreamToOpen

//@ func (m *streamsMap) HandleMaxStreamsFrame
//@   props C15
//@   requires m.smInv() && 0 <= f.MaxStreamNum && f.MaxStreamNum <= 1152921504606846976 && (f.Type == protocol.StreamTypeUni || f.Type == protocol.StreamTypeBidi)
//@   ensures [monotone] m.outgoingUniStreams.maxStream >= old(m.outgoingUniStreams.maxStream) && m.outgoingBidiStreams.maxStream >= old(m.outgoingBidiStreams.maxStream)
//@   modifies m.outgoingUniStreams.maxStream, m.outgoingUniStreams.blockedSent, m.outgoingBidiStreams.maxStream, m.outgoingBidiStreams.blockedSent

// ---------------- connection ID manager (C16, C12) ----------------
//@ pred (h *connIDManager) qInv() =
//@      forall2(j, k, 0, len(h.queue), h.queue[j].SequenceNumber < h.queue[k].SequenceNumber, trig(h.queue, j), trig(h.queue, k))

//@ func (h *connIDManager) assertNotClosed
//@   props C16
//@   panics when h.closed
//@   modifies nothing

//@ func (h *connIDManager) addConnectionID
//@   props C16
//@   requires h.qInv()
//@   ensures [inv] h.qInv()
//@   ensures [queued] implies(result == nil, exists(k, 0, len(h.queue), h.queue[k].SequenceNumber == seq, trig(h.queue, k)))
//@   ensures [grows-by-one] len(h.queue) == old(len(h.queue)) || len(h.queue) == old(len(h.queue)) + 1
//@   ensures [conflict] implies(result != nil, len(h.queue) == old(len(h.queue)) && old(exists(k, 0, len(h.queue), h.queue[k].SequenceNumber == seq, trig(h.queue, k))))
//@   ensures [keeps] forall(q, uint64, implies(old(exists(k, 0, len(h.queue), h.queue[k].SequenceNumber == q, trig(h.queue, k))), exists(k, 0, len(h.queue), h.queue[k].SequenceNumber == q, trig(h.queue, k))))
//@   modifies h.queue, h.queue[*]
//@ loop (h *connIDManager) addConnectionID #0
//@   invariant 0 <= rangeidx && rangeidx <= len(h.queue) && len(h.queue) >= 1
//@   invariant forall(k, 0, rangeidx, h.queue[k].SequenceNumber < seq, trig(h.queue, k))
//@   modifies nothing
