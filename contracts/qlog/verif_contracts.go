//go:build verif

package qlog

// Contracts for qlog helpers called from verified code. Comment-only file.

//@ func EncryptionLevelToPacketType
//@   props C06
//@   panics when l < 1 || l > 4
//@   modifies nothing
