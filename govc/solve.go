package main

import (
	"bytes"
	"context"
	"crypto/sha256"
	"encoding/hex"
	"fmt"
	"os"
	"os/exec"
	"path/filepath"
	"strings"
	"sync"
	"time"
)

type SolveResult struct {
	Answer  string // unsat | sat | unknown | timeout | error
	Solver  string
	Seconds float64
	Output  string
	Model   map[string]string
	Tried   []string
	// Candidate: the model was obtained after dropping the quantified assumptions of an undecided query. It proves
	// nothing by itself; it is only handed to the replay, and counts if the real code then exhibits the violation.
	Candidate bool
}

type solverSpec struct {
	name string
	args func(file string, timeoutS int) []string
}

var solvers = []solverSpec{
	{"z3-new", func(f string, t int) []string { return []string{"z3-new", fmt.Sprintf("-T:%d", t), f} }},
	{"z3", func(f string, t int) []string { return []string{"z3", fmt.Sprintf("-T:%d", t), f} }},
	{"cvc5", func(f string, t int) []string {
		return []string{"cvc5", "-q", "--produce-models", fmt.Sprintf("--tlimit=%d", t*1000), f}
	}},
}

func runSolverCtx(parent context.Context, sp solverSpec, file string, timeoutS int) (string, string, float64) {
	args := sp.args(file, timeoutS)
	ctx, cancel := context.WithTimeout(parent, time.Duration(timeoutS+2)*time.Second)
	defer cancel()
	cmd := exec.CommandContext(ctx, args[0], args[1:]...)
	var out bytes.Buffer
	cmd.Stdout = &out
	cmd.Stderr = &out
	t0 := time.Now()
	cmd.Run()
	el := time.Since(t0).Seconds()
	o := out.String()
	first := strings.TrimSpace(strings.SplitN(o, "\n", 2)[0])
	switch first {
	case "unsat", "sat", "unknown":
		return first, o, el
	case "timeout":
		return "timeout", o, el
	}
	if parent.Err() != nil {
		return "cancelled", o, el
	}
	if ctx.Err() != nil || strings.Contains(o, "timeout") || strings.Contains(o, "interrupted") {
		return "timeout", o, el
	}
	return "error", o, el
}

func runSolver(sp solverSpec, file string, timeoutS int) (string, string, float64) {
	return runSolverCtx(context.Background(), sp, file, timeoutS)
}

type raceResult struct {
	name, answer, out string
	el                float64
}

// race runs several solvers concurrently on the same file and returns the first decided answer.
func race(sps []solverSpec, file string, timeoutS int) (best raceResult, all []raceResult) {
	ctx, cancel := context.WithCancel(context.Background())
	defer cancel()
	ch := make(chan raceResult, len(sps))
	for _, sp := range sps {
		sp := sp
		go func() {
			a, o, el := runSolverCtx(ctx, sp, file, timeoutS)
			ch <- raceResult{sp.name, a, o, el}
		}()
	}
	got := 0
	for got < len(sps) {
		r := <-ch
		got++
		if r.answer != "cancelled" {
			all = append(all, r)
		}
		if r.answer == "unsat" || r.answer == "sat" {
			cancel()
			return r, all
		}
		if best.name == "" || best.answer == "cancelled" {
			best = r
		}
	}
	return best, all
}

type Solver struct {
	outDir   string
	quickT   int
	longT    int
	mu       sync.Mutex
	cache    map[string]*SolveResult
	byBackend map[string]int
	totalS   float64
	queries  int
	noBatch  bool
	// thorough tier: every unsat answer is re-asked of a different solver; agreement / no-answer / DISAGREEMENT are counted
	crossCheck            bool
	crossAgree, crossNone int
	crossDisagree         []string
}

func newSolver(outDir string, quickT, longT int) *Solver {
	os.MkdirAll(outDir, 0o755)
	return &Solver{outDir: outDir, quickT: quickT, longT: longT, cache: map[string]*SolveResult{}, byBackend: map[string]int{}}
}

// solve discharges one query. wantSat: reachability query (sat expected).
func (sv *Solver) solve(name, script string, modelTerms []string, wantSat bool) *SolveResult {
	return sv.solveH(name, script, modelTerms, nil, wantSat)
}

// solveH: as solve; hints are staged extra assertions tried (most restrictive first) when a model is fetched, so that
// the counterexample handed to the replay is small (short slices) whenever a small one exists.
func (sv *Solver) solveH(name, script string, modelTerms []string, hints [][]string, wantSat bool) *SolveResult {
	h := sha256.Sum256([]byte(script))
	key := hex.EncodeToString(h[:8])
	sv.mu.Lock()
	if r, ok := sv.cache[key]; ok {
		sv.mu.Unlock()
		return r
	}
	sv.mu.Unlock()
	file := filepath.Join(sv.outDir, sanitize(name)+"-"+key+".smt2")
	full := script + "(check-sat)\n"
	os.WriteFile(file, []byte(full), 0o644)
	res := &SolveResult{}
	record := func(rs []raceResult) {
		for _, r := range rs {
			res.Tried = append(res.Tried, fmt.Sprintf("%s:%s:%.2fs", r.name, r.answer, r.el))
			sv.mu.Lock()
			sv.totalS += r.el
			sv.queries++
			sv.mu.Unlock()
		}
	}
	if wantSat {
		// vacuity guards: a short attempt is enough (unsat is what matters, and it is found quickly)
		a, o, el := runSolver(solvers[0], file, 1)
		record([]raceResult{{solvers[0].name, a, o, el}})
		res.Answer, res.Solver, res.Seconds, res.Output = a, solvers[0].name, el, truncate(o, 2000)
	} else {
		// stage 1: z3-new and cvc5 race with the quick timeout (each has query shapes the other stalls on);
		// stage 2: all three race with the long timeout
		best, all := race([]solverSpec{solvers[0], solvers[2]}, file, sv.quickT)
		record(all)
		res.Answer, res.Solver, res.Seconds, res.Output = best.answer, best.name, best.el, truncate(best.out, 2000)
		if best.answer != "unsat" && best.answer != "sat" {
			best, all = race(solvers, file, sv.longT)
			record(all)
			res.Answer, res.Solver, res.Seconds, res.Output = best.answer, best.name, res.Seconds+best.el, truncate(best.out, 2000)
		}
	}
	sv.mu.Lock()
	sv.byBackend[res.Solver+":"+res.Answer]++
	sv.mu.Unlock()
	if sv.crossCheck && !wantSat && res.Answer == "unsat" {
		var others []solverSpec
		for _, sp := range solvers {
			if sp.name != res.Solver {
				others = append(others, sp)
			}
		}
		second, all := race(others, file, sv.quickT)
		record(all)
		sv.mu.Lock()
		switch second.answer {
		case "unsat":
			sv.crossAgree++
		case "sat":
			sv.crossDisagree = append(sv.crossDisagree, fmt.Sprintf("%s: %s says unsat, %s says sat", name, res.Solver, second.name))
		default:
			sv.crossNone++
		}
		sv.mu.Unlock()
	}
	if res.Answer == "sat" && !wantSat && len(modelTerms) > 0 {
		res.Model = sv.getModel(file, script, modelTerms, hints)
	}
	if res.Answer != "sat" && res.Answer != "unsat" && !wantSat && len(modelTerms) > 0 {
		// undecided: look for a candidate counterexample of the quantifier-free part (to be confirmed by replay only)
		if weak, dropped := dropQuantifiedAsserts(script); dropped > 0 {
			if m := sv.getModel(file, weak, modelTerms, hints); m != nil {
				res.Model, res.Candidate = m, true
				res.Tried = append(res.Tried, fmt.Sprintf("candidate-model:%d quantified assumptions dropped", dropped))
			}
		}
	}
	if (res.Answer == "unsat" && !wantSat || res.Answer == "sat" && wantSat) && (os.Getenv("GOVC_KEEP") == "" || res.Seconds < 1.5) && os.Getenv("GOVC_KEEP") != "all" {
		os.Remove(file)
	}
	sv.mu.Lock()
	sv.cache[key] = res
	sv.mu.Unlock()
	return res
}

// solveQuick: one quick race (no long stage, no model): used for batched queries, whose only useful answer is unsat.
func (sv *Solver) solveQuick(name, script string) *SolveResult {
	h := sha256.Sum256([]byte(script))
	key := "q" + hex.EncodeToString(h[:8])
	sv.mu.Lock()
	if r, ok := sv.cache[key]; ok {
		sv.mu.Unlock()
		return r
	}
	sv.mu.Unlock()
	file := filepath.Join(sv.outDir, sanitize(name)+"-"+key+".smt2")
	os.WriteFile(file, []byte(script+"(check-sat)\n"), 0o644)
	defer os.Remove(file)
	best, all := race([]solverSpec{solvers[0], solvers[2]}, file, sv.quickT)
	res := &SolveResult{Answer: best.answer, Solver: best.name, Seconds: best.el}
	sv.mu.Lock()
	for _, r := range all {
		sv.totalS += r.el
		sv.queries++
	}
	sv.byBackend[res.Solver+":batch-"+res.Answer]++
	sv.cache[key] = res
	sv.mu.Unlock()
	return res
}

func (sv *Solver) getModel(file, script string, terms []string, hints [][]string) map[string]string {
	for _, h := range hints {
		if len(h) == 0 {
			continue
		}
		if m := sv.getModel1(file, script+"(assert (and "+strings.Join(h, " ")+"))\n", terms, 5); m != nil {
			return m
		}
	}
	return sv.getModel1(file, script, terms, sv.longT)
}

func (sv *Solver) getModel1(file, script string, terms []string, timeout int) map[string]string {
	mfile := strings.TrimSuffix(file, ".smt2") + ".model.smt2"
	var sb strings.Builder
	sb.WriteString("(set-option :produce-models true)\n")
	sb.WriteString(script)
	sb.WriteString("(check-sat)\n")
	for _, t := range terms {
		sb.WriteString("(get-value (" + t + "))\n")
	}
	os.WriteFile(mfile, []byte(sb.String()), 0o644)
	for _, sp := range []solverSpec{solvers[0], solvers[1]} {
		a, o, _ := runSolver(sp, mfile, timeout)
		if a != "sat" {
			continue
		}
		m := map[string]string{}
		lines := strings.Split(o, "\n")
		// each get-value prints "((term value))" possibly on several lines; parse greedily
		rest := strings.Join(lines[1:], "\n")
		vals := splitTopLevel(rest)
		for i, v := range vals {
			if i < len(terms) {
				m[terms[i]] = extractValue(v)
			}
		}
		return m
	}
	return nil
}

// splitTopLevel splits a string into balanced top-level s-expressions.
func splitTopLevel(s string) []string {
	var out []string
	d := 0
	start := -1
	inBar := false
	for i, ch := range s {
		if ch == '|' {
			inBar = !inBar
		}
		if inBar {
			continue
		}
		switch ch {
		case '(':
			if d == 0 {
				start = i
			}
			d++
		case ')':
			d--
			if d == 0 && start >= 0 {
				out = append(out, s[start:i+1])
				start = -1
			}
		}
	}
	return out
}

// extractValue: "((term value))" -> "value"
func extractValue(s string) string {
	s = strings.TrimSpace(s)
	if len(s) < 4 {
		return s
	}
	inner := strings.TrimSpace(s[1 : len(s)-1]) // (term value)
	if len(inner) < 2 {
		return inner
	}
	inner = strings.TrimSpace(inner[1 : len(inner)-1]) // term value
	// skip the term (one s-expr or atom)
	i := 0
	if inner[0] == '(' {
		d := 0
		for j, ch := range inner {
			if ch == '(' {
				d++
			} else if ch == ')' {
				d--
				if d == 0 {
					i = j + 1
					break
				}
			}
		}
	} else if inner[0] == '|' {
		j := strings.Index(inner[1:], "|")
		i = j + 2
	} else {
		j := strings.IndexAny(inner, " \n\t")
		if j < 0 {
			return ""
		}
		i = j
	}
	return strings.TrimSpace(inner[i:])
}

// dropQuantifiedAsserts removes the assertions that contain a quantifier, except the last assertion (the negated goal).
func dropQuantifiedAsserts(script string) (string, int) {
	lines := strings.Split(script, "\n")
	last := -1
	for i, l := range lines {
		if strings.HasPrefix(l, "(assert ") {
			last = i
		}
	}
	var out []string
	dropped := 0
	for i, l := range lines {
		if i != last && strings.HasPrefix(l, "(assert ") && (strings.Contains(l, "(forall ") || strings.Contains(l, "(exists ")) {
			dropped++
			continue
		}
		out = append(out, l)
	}
	return strings.Join(out, "\n"), dropped
}
