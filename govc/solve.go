package main

import (
	"bytes"
	"context"
	"crypto/sha256"
	"encoding/hex"
	"fmt"
	"os"
	"os/exec"
	"path/filepath"
	"strings"
	"sync"
	"time"
)

type SolveResult struct {
	Answer  string // unsat | sat | unknown | timeout | error
	Solver  string
	Seconds float64
	Output  string
	Model   map[string]string
	Tried   []string
}

type solverSpec struct {
	name string
	args func(file string, timeoutS int) []string
}

var solvers = []solverSpec{
	{"z3-new", func(f string, t int) []string { return []string{"z3-new", fmt.Sprintf("-T:%d", t), f} }},
	{"z3", func(f string, t int) []string { return []string{"z3", fmt.Sprintf("-T:%d", t), f} }},
	{"cvc5", func(f string, t int) []string {
		return []string{"cvc5", "-q", "--produce-models", fmt.Sprintf("--tlimit=%d", t*1000), f}
	}},
}

func runSolver(sp solverSpec, file string, timeoutS int) (string, string, float64) {
	args := sp.args(file, timeoutS)
	ctx, cancel := context.WithTimeout(context.Background(), time.Duration(timeoutS+2)*time.Second)
	defer cancel()
	cmd := exec.CommandContext(ctx, args[0], args[1:]...)
	var out bytes.Buffer
	cmd.Stdout = &out
	cmd.Stderr = &out
	t0 := time.Now()
	cmd.Run()
	el := time.Since(t0).Seconds()
	o := out.String()
	first := strings.TrimSpace(strings.SplitN(o, "\n", 2)[0])
	switch first {
	case "unsat", "sat", "unknown":
		return first, o, el
	case "timeout":
		return "timeout", o, el
	}
	if ctx.Err() != nil || strings.Contains(o, "timeout") || strings.Contains(o, "interrupted") {
		return "timeout", o, el
	}
	return "error", o, el
}

type Solver struct {
	outDir   string
	quickT   int
	longT    int
	mu       sync.Mutex
	cache    map[string]*SolveResult
	byBackend map[string]int
	totalS   float64
	queries  int
}

func newSolver(outDir string, quickT, longT int) *Solver {
	os.MkdirAll(outDir, 0o755)
	return &Solver{outDir: outDir, quickT: quickT, longT: longT, cache: map[string]*SolveResult{}, byBackend: map[string]int{}}
}

// solve discharges one query. wantSat: reachability query (sat expected).
func (sv *Solver) solve(name, script string, modelTerms []string, wantSat bool) *SolveResult {
	h := sha256.Sum256([]byte(script))
	key := hex.EncodeToString(h[:8])
	sv.mu.Lock()
	if r, ok := sv.cache[key]; ok {
		sv.mu.Unlock()
		return r
	}
	sv.mu.Unlock()
	file := filepath.Join(sv.outDir, sanitize(name)+"-"+key+".smt2")
	full := script + "(check-sat)\n"
	os.WriteFile(file, []byte(full), 0o644)
	res := &SolveResult{}
	decided := func(a string) bool { return a == "unsat" || a == "sat" }
	// stage 1: z3-new with the quick timeout; stage 2: the others; stage 3: all with the long timeout
	stages := []struct {
		sp solverSpec
		t  int
	}{{solvers[0], sv.quickT}, {solvers[2], sv.quickT}, {solvers[1], sv.quickT}, {solvers[0], sv.longT}, {solvers[2], sv.longT}}
	if wantSat {
		// vacuity guards: a short attempt is enough (unsat is what matters, and it is found quickly)
		stages = []struct {
			sp solverSpec
			t  int
		}{{solvers[0], 3}}
	}
	for _, st := range stages {
		a, o, el := runSolver(st.sp, file, st.t)
		res.Tried = append(res.Tried, fmt.Sprintf("%s:%s:%.2fs", st.sp.name, a, el))
		sv.mu.Lock()
		sv.totalS += el
		sv.queries++
		sv.mu.Unlock()
		res.Answer, res.Solver, res.Seconds, res.Output = a, st.sp.name, el, truncate(o, 2000)
		if decided(a) {
			break
		}
	}
	sv.mu.Lock()
	sv.byBackend[res.Solver+":"+res.Answer]++
	sv.mu.Unlock()
	if res.Answer == "sat" && !wantSat && len(modelTerms) > 0 {
		res.Model = sv.getModel(file, script, modelTerms)
	}
	if res.Answer == "unsat" && !wantSat || res.Answer == "sat" && wantSat {
		os.Remove(file)
	}
	sv.mu.Lock()
	sv.cache[key] = res
	sv.mu.Unlock()
	return res
}

func (sv *Solver) getModel(file, script string, terms []string) map[string]string {
	mfile := strings.TrimSuffix(file, ".smt2") + ".model.smt2"
	var sb strings.Builder
	sb.WriteString("(set-option :produce-models true)\n")
	sb.WriteString(script)
	sb.WriteString("(check-sat)\n")
	for _, t := range terms {
		sb.WriteString("(get-value (" + t + "))\n")
	}
	os.WriteFile(mfile, []byte(sb.String()), 0o644)
	for _, sp := range []solverSpec{solvers[0], solvers[1]} {
		a, o, _ := runSolver(sp, mfile, sv.longT)
		if a != "sat" {
			continue
		}
		m := map[string]string{}
		lines := strings.Split(o, "\n")
		// each get-value prints "((term value))" possibly on several lines; parse greedily
		rest := strings.Join(lines[1:], "\n")
		vals := splitTopLevel(rest)
		for i, v := range vals {
			if i < len(terms) {
				m[terms[i]] = extractValue(v)
			}
		}
		return m
	}
	return nil
}

// splitTopLevel splits a string into balanced top-level s-expressions.
func splitTopLevel(s string) []string {
	var out []string
	d := 0
	start := -1
	inBar := false
	for i, ch := range s {
		if ch == '|' {
			inBar = !inBar
		}
		if inBar {
			continue
		}
		switch ch {
		case '(':
			if d == 0 {
				start = i
			}
			d++
		case ')':
			d--
			if d == 0 && start >= 0 {
				out = append(out, s[start:i+1])
				start = -1
			}
		}
	}
	return out
}

// extractValue: "((term value))" -> "value"
func extractValue(s string) string {
	s = strings.TrimSpace(s)
	if len(s) < 4 {
		return s
	}
	inner := strings.TrimSpace(s[1 : len(s)-1]) // (term value)
	if len(inner) < 2 {
		return inner
	}
	inner = strings.TrimSpace(inner[1 : len(inner)-1]) // term value
	// skip the term (one s-expr or atom)
	i := 0
	if inner[0] == '(' {
		d := 0
		for j, ch := range inner {
			if ch == '(' {
				d++
			} else if ch == ')' {
				d--
				if d == 0 {
					i = j + 1
					break
				}
			}
		}
	} else if inner[0] == '|' {
		j := strings.Index(inner[1:], "|")
		i = j + 2
	} else {
		j := strings.IndexAny(inner, " \n\t")
		if j < 0 {
			return ""
		}
		i = j
	}
	return strings.TrimSpace(inner[i:])
}
