package main

import (
	"encoding/json"
	"os"
	"path/filepath"
)

type replayInfo struct {
	path   string
	status string
}

type ReplayFile struct {
	Property     string            `json:"property"`
	Obligation   string            `json:"obligation"`
	Kind         string            `json:"kind"`
	Function     string            `json:"function"`
	Clause       string            `json:"clause"`
	Pos          string            `json:"pos"`
	Solver       string            `json:"solver"`
	Answer       string            `json:"answer"`
	SolverOutput string            `json:"solver_output"`
	Tried        []string          `json:"tried"`
	Inputs       map[string]string `json:"inputs"`
	Replay       map[string]string `json:"replay"`
}

func writeReplay(eng *Engine, dir, pid, name string, st *oblStatus, fr *FuncResult) replayInfo {
	os.MkdirAll(dir, 0o755)
	rf := ReplayFile{Property: pid, Obligation: name, Function: fr.Name, Clause: st.Goal, Pos: st.Pos, Inputs: map[string]string{}, Replay: map[string]string{"status": "not-attempted"}}
	if st.FailInst != nil {
		rf.Kind = st.FailInst.Kind
	}
	if st.FailRes != nil {
		rf.Solver, rf.Answer, rf.SolverOutput, rf.Tried = st.FailRes.Solver, st.FailRes.Answer, st.FailRes.Output, st.FailRes.Tried
		if st.FailInst != nil && st.FailInst.Kind == "callers" {
			// a precondition on the calling context, decided on the program text: there is no input to replay
			rf.Replay["reason"] = "structural obligation (opt calledfrom): " + st.Goal
		} else if st.FailRes.Model != nil && st.FailInst != nil {
			for _, v := range st.FailInst.Vars {
				if val, ok := st.FailRes.Model[v.Term]; ok {
					rf.Inputs[v.Name] = val
				}
			}
			for _, v := range st.FailInst.Fields {
				if val, ok := st.FailRes.Model[v.Term]; ok && v.Term != "" {
					rf.Inputs[v.Path] = val
				}
			}
		}
	}
	if st.FailRes != nil && st.FailRes.Candidate {
		rf.Replay["model"] = "candidate: the solver did not decide the obligation; this model satisfies the path condition without its quantified assumptions and counts only if the replay confirms it"
	}
	status := "not-attempted"
	if len(rf.Inputs) > 0 && st.FailInst != nil {
		status = tryReplay(eng, &rf, st, fr)
	}
	rf.Replay["status"] = status
	p := filepath.Join(dir, sanitize(name)+".json")
	b, _ := json.MarshalIndent(rf, "", " ")
	os.WriteFile(p, b, 0o644)
	return replayInfo{path: p, status: status}
}

func writeLemmaReplay(dir, pid string, lr *lemmaResult) string {
	os.MkdirAll(dir, 0o755)
	rf := ReplayFile{Property: pid, Obligation: lr.name, Kind: "lemma", Inputs: map[string]string{}, Replay: map[string]string{"status": "not-attempted"}}
	if lr.res != nil {
		rf.Solver, rf.Answer, rf.SolverOutput, rf.Tried = lr.res.Solver, lr.res.Answer, lr.res.Output, lr.res.Tried
		if lr.res.Model != nil && len(lr.obls) > 0 {
			for _, v := range lr.obls[0].Vars {
				if val, ok := lr.res.Model[v.Term]; ok {
					rf.Inputs[v.Name] = val
				}
			}
		}
	}
	if lr.msg != "" {
		rf.SolverOutput = lr.msg
	}
	p := filepath.Join(dir, sanitize(lr.name)+".json")
	b, _ := json.MarshalIndent(rf, "", " ")
	os.WriteFile(p, b, 0o644)
	return p
}

// tryReplay: generated later (replaygen.go); returns "confirmed", "not-reproduced" or "not-attempted".
func tryReplay(eng *Engine, rf *ReplayFile, st *oblStatus, fr *FuncResult) string {
	return replayOnRealCode(eng, rf, st, fr)
}
