package main

// Lemmas: small ghost programs over the contracts of real functions.
//
//	//@ lemma name
//	//@   props C05
//	//@   arith bv
//	//@   var x T            (fresh symbolic value of Go type T, resolved in the lemma's package)
//	//@   assume <expr>
//	//@   step r = f(args)   (call by contract: pre asserted as obligation, post assumed)
//	//@   show <expr>
//
// The bodies of the called functions are never opened; a lemma therefore follows from the contracts alone.

import (
	"fmt"
	"go/ast"
	"go/token"
	"go/types"
	"strings"

	"golang.org/x/tools/go/ssa"
)

type lemmaResult struct {
	name string
	ok   bool
	res  *SolveResult
	msg  string
	obls []*Obligation
}

func runLemmas(eng *Engine, sv *Solver, lemmas []*Lemma) []*lemmaResult {
	var out []*lemmaResult
	for _, lm := range lemmas {
		out = append(out, runLemma(eng, sv, lm)...)
	}
	return out
}

func runLemma(eng *Engine, sv *Solver, lm *Lemma) (out []*lemmaResult) {
	name := shortPkg(lm.Pkg) + ".lemma:" + lm.Name
	c := &Ctx{eng: eng, ar: &arith{bv: lm.Arith == "bv"}, pc: eng.db.Pkgs[lm.Pkg], name: shortPkg(lm.Pkg) + ".lemma:" + lm.Name,
		heapSorts: map[string]string{}, declSet: map[string]bool{}, siteCount: map[string]int{}, assumptions: map[string]bool{}, strLits: map[string]string{},
		siteIDs: map[string]string{}, notes: map[string]bool{}, maxPaths: 10}
	c.fc = &FuncContract{Key: "lemma:" + lm.Name, Nilable: map[string]bool{}, Unclaimed: map[string]string{}, Loops: map[int]*LoopContract{}, Opts: map[string]string{}}
	failed := func(msg string) []*lemmaResult {
		return []*lemmaResult{{name: name, ok: false, msg: msg}}
	}
	var perr string
	func() {
		defer func() {
			if r := recover(); r != nil {
				switch x := r.(type) {
				case specError:
					perr = "contract error: " + x.msg
				case unsupported:
					perr = "unsupported: " + x.msg
				default:
					panic(r)
				}
			}
		}()
		s := &State{heap: map[string]string{}, touched: map[string]bool{}, allocBase: "alloc0"}
		env := c.newSpecEnv(s, nil)
		env.pkg = eng.typesPkg(lm.Pkg)
		env.old = map[string]string{} // old(e): e in the initial state of the lemma
		for _, v := range lm.Vars {
			ff := strings.Fields(v)
			if len(ff) != 2 {
				specFail("lemma var %q", v)
			}
			te, err := parseExprText(ff[1])
			if err != nil {
				specFail("%v", err)
			}
			t := env.resolveType(te)
			val := c.freshVal(s, ff[0], t)
			c.paramAssumptions(s, ff[0], val, c.fc)
			env.vars[ff[0]] = val
			c.addModelVars(ff[0], val)
		}
		reached := false
		nshow, nstep := 0, 0
		for _, it := range lm.Items {
			switch it.Kind {
			case "assume":
				c.assume(s, env.evalBool(it.Cl.Expr))
			case "step":
				if !reached {
					c.reach(s, "reach", "hyp", "lemma hypotheses satisfiable")
					reached = true
				}
				c.lemmaStep(s, env, it.Cl.Text, nstep)
				nstep++
			case "show":
				lb := it.Cl.Label
				if lb == "" {
					lb = fmt.Sprintf("%d", nshow)
				}
				nshow++
				c.oblige(s, "show", lb, env.evalBool(it.Cl.Expr), it.Cl.Text, token.NoPos)
			}
		}
		c.reach(s, "reach", "end", "lemma hypotheses and steps satisfiable")
	}()
	if perr != "" {
		return failed(perr)
	}
	pre := preamble(c.ar.bv) + strings.Join(c.decls, "\n") + "\n"
	for _, o := range c.obls {
		var terms []string
		for _, v := range o.Vars {
			terms = append(terms, v.Term)
		}
		r := sv.solve(o.Name(), pre+o.Script, terms, o.Reach)
		ok := r.Answer == "unsat"
		if o.Reach {
			ok = r.Answer != "unsat"
		}
		out = append(out, &lemmaResult{name: o.Name(), ok: ok, res: r, obls: []*Obligation{o}})
	}
	return out
}

// lemmaStep executes "x = f(args)" / "x, y = recv.m(args)" / "recv.m(args)" by contract.
func (c *Ctx) lemmaStep(s *State, env *SpecEnv, text string, idx int) {
	var lhs []string
	rhs := text
	if k := strings.Index(text, ":="); k >= 0 {
		text = text[:k] + "=" + text[k+2:]
	}
	if k := strings.Index(text, "="); k >= 0 && !strings.Contains(text[:k], "(") {
		for _, n := range strings.Split(text[:k], ",") {
			lhs = append(lhs, strings.TrimSpace(n))
		}
		rhs = text[k+1:]
	}
	e, err := parseExprText(rhs)
	if err != nil {
		specFail("%v", err)
	}
	call, ok := e.(*ast.CallExpr)
	if !ok {
		// plain ghost assignment
		if len(lhs) == 1 {
			env.vars[lhs[0]] = env.eval(e)
			return
		}
		specFail("lemma step must be a call or assignment: %s", text)
	}
	var fn *ssa.Function
	var args []Val
	switch f := call.Fun.(type) {
	case *ast.Ident:
		fn = c.eng.funcIndex[env.pkg.Path()][f.Name]
	case *ast.SelectorExpr:
		if id, ok := f.X.(*ast.Ident); ok {
			if _, isVar := env.tryIdent(id.Name); !isVar {
				if p := env.lookupPkg(id.Name); p != nil {
					fn = c.eng.funcIndex[p.Path()][f.Sel.Name]
					break
				}
			}
		}
		recv := env.eval(f.X)
		n := namedOf(recv.Type())
		if n == nil {
			specFail("lemma step: receiver of unknown type in %s", text)
		}
		idxm := c.eng.funcIndex[n.Obj().Pkg().Path()]
		fn = idxm["(*"+n.Obj().Name()+")."+f.Sel.Name]
		if fn == nil {
			fn = idxm["("+n.Obj().Name()+")."+f.Sel.Name]
		}
		args = append(args, recv)
	}
	if fn == nil {
		specFail("lemma step: unknown function in %s", text)
	}
	fc := c.eng.contractFor(fn)
	if fc == nil {
		specFail("lemma step: %s has no contract", fn.Name())
	}
	for _, a := range call.Args {
		v := env.eval(a)
		// coerce untyped constants to parameter types
		pi := len(args)
		if pi < len(fn.Params) {
			v = env.convertTo(v, fn.Params[pi].Type())
		}
		args = append(args, v)
	}
	names := make([]string, len(fn.Params))
	for i, p := range fn.Params {
		names[i] = p.Name()
	}
	res := c.applyContractAt(s, nil, fmt.Sprintf("step%d", idx), token.NoPos, fc, relFuncName(fn), names, fc.RecvName, args, fn.Signature, fn.Pkg)
	if len(lhs) == 1 && res != nil {
		env.vars[lhs[0]] = res
	} else if len(lhs) > 1 {
		tv := res.(TupleV)
		for i, n := range lhs {
			if n != "_" {
				env.vars[n] = tv.E[i]
			}
		}
	}
	_ = types.Typ
}
