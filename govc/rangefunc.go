package main

// Composition rule for range-over-func loops.
//
// go/ssa lowers
//
//	for x := range seq { body }
//
// to   jump := new(int); seq(F$k)   where F$k is a synthetic function literal ("range-over-func yield") that runs the
// body once and returns whether the iteration continues. The body F$k is verified as a function of its own (captured
// variables named as in the source). This file verifies the ENCLOSING function across the call seq(F$k) by the usual
// loop rule with the body replaced by F$k's contract:
//
//	1. the loop invariant (contract item `loop <func> #rf<k>`) is asserted on entry             (inv-init:rf<k>)
//	2. everything F$k may modify (its `modifies`, with element-dependent targets widened to the whole heap) is havocked,
//	   call counts of everything F$k may call become unknown non-negative numbers
//	3. the invariant is assumed; then either
//	   a. the iterator is exhausted: execution continues after the call with the state variable "ready" (0), or
//	   b. one more element is yielded: F$k's preconditions are asserted (pre:F$k@...), its contract applied; if it returns
//	      true the invariant is asserted again (inv-step:rf<k>) and the path ends; if it returns false execution
//	      continues after the call, the state variable holding one of the exit codes the body stores.
//
// What is assumed about the iterator (recorded as an assumption in the evidence): it calls the body sequentially, zero or
// more times, stops when the body returns false, and writes no modelled state itself; the elements it yields satisfy the
// `elem` clauses of the contract of the function that returned it.

import (
	"fmt"
	"go/constant"
	"go/token"
	"go/types"
	"regexp"
	"strconv"
	"strings"

	"golang.org/x/tools/go/ssa"
)

func yieldOrdinal(pf *ssa.Function) int {
	n := pf.Name()
	i := strings.LastIndex(n, "$")
	if i < 0 {
		return 0
	}
	k, _ := strconv.Atoi(n[i+1:])
	return k
}

// jumpExitCodes: the constants >= 1 the body stores into its state variable (break / return / continue-outer codes).
func jumpExitCodes(pf *ssa.Function, jv *ssa.FreeVar) []int64 {
	seen := map[int64]bool{}
	var out []int64
	for _, b := range pf.Blocks {
		for _, in := range b.Instrs {
			st, ok := in.(*ssa.Store)
			if !ok || st.Addr != jv {
				continue
			}
			if k, ok := st.Val.(*ssa.Const); ok && k.Value != nil && k.Value.Kind() == constant.Int {
				v, _ := constant.Int64Val(k.Value)
				if v >= 1 && !seen[v] {
					seen[v] = true
					out = append(out, v)
				}
			}
		}
	}
	return out
}

var calledNameRe = regexp.MustCompile(`called\("([^"]+)"\)`)

// callNamesIn: names under which calls made by the given blocks are logged, plus the names the contracts of static
// callees state in called("...") clauses (one level: this is exactly what applyContract transfers to a caller).
func (c *Ctx) callNamesIn(blocks []*ssa.BasicBlock) []string {
	seen := map[string]bool{}
	var out []string
	add := func(n string) {
		if n != "" && !seen[n] {
			seen[n] = true
			out = append(out, n)
		}
	}
	addContractNames := func(fc *FuncContract) {
		if fc == nil {
			return
		}
		for _, e := range fc.Ensures {
			for _, m := range calledNameRe.FindAllStringSubmatch(e.Text, -1) {
				add(m[1])
			}
		}
	}
	var visit func(bs []*ssa.BasicBlock, depth int)
	visit = func(bs []*ssa.BasicBlock, depth int) {
		for _, b := range bs {
			for _, in := range b.Instrs {
				var com *ssa.CallCommon
				switch x := in.(type) {
				case *ssa.Call:
					com = x.Common()
				case *ssa.Defer:
					com = x.Common()
				case *ssa.Go:
					com = x.Common()
				case *ssa.MakeClosure:
					// a function literal created here may be called (by an iterator, a sort, a callback)
					if f, ok := x.Fn.(*ssa.Function); ok && depth < 3 {
						add(relFuncName(f))
						addContractNames(c.eng.contractFor(f))
						visit(f.Blocks, depth+1)
					}
					continue
				default:
					continue
				}
				if com.IsInvoke() {
					key := "(" + typeName(com.Value.Type()) + ")." + com.Method.Name()
					add(key)
					if fc := c.eng.ifaceContract(com.Value.Type(), com.Method.Name()); fc != nil {
						addContractNames(fc)
					}
					if fn, _ := c.eng.devirt(com.Value.Type(), com.Method.Name()); fn != nil {
						add(relFuncName(fn))
						addContractNames(c.eng.contractFor(fn))
					}
					continue
				}
				switch fn := com.Value.(type) {
				case *ssa.Function:
					add(relFuncName(fn))
					fc := c.eng.contractFor(fn)
					addContractNames(fc)
					if fc == nil {
						if ec := c.eng.db.Externs[fullFuncName(fn)]; ec != nil {
							addContractNames(ec)
						}
					}
					if (fc == nil || fc.Inline) && fn.Blocks != nil && depth < 3 && (fn.Parent() != nil || (fc != nil && fc.Inline) || strings.HasPrefix(fn.Synthetic, "wrapper")) {
						visit(fn.Blocks, depth+1) // inlined callee
					}
				case *ssa.Builtin:
				default:
					add(fnValueName(com.Value))
				}
			}
		}
	}
	visit(blocks, 0)
	return out
}

// widenCallCounts: after a loop head havoc the number of calls made by earlier iterations is unknown.
func (c *Ctx) widenCallCounts(s *State, names []string) {
	if len(names) == 0 {
		return
	}
	if s.callExtra == nil {
		s.callExtra = map[string][]string{}
	}
	for _, n := range names {
		t := c.freshConst(s, "loopcalls", c.ar.idxSort())
		c.assume(s, c.idxCmp(token.GEQ, t, c.ar.idx(0)))
		s.callExtra[n] = append(s.callExtra[n], t)
	}
}

func (c *Ctx) bindYieldCaptures(pf *ssa.Function, cl ClosureV) {
	c.extraContractVars = map[string]Val{}
	blanks := 0
	for k, fv := range pf.FreeVars {
		name := fv.Name()
		if name == "_" {
			name = blankFreeVarName(pf, fv, blanks)
			blanks++
		}
		if strings.HasPrefix(name, "jump$") {
			name = "jump"
		}
		if k < len(cl.Bindings) {
			c.extraContractVars[name] = SrcAddr{P: cl.Bindings[k], Ty: fv.Type()}
		}
	}
}

func (c *Ctx) rangeFuncLoop(s *State, fr *Frame, x *ssa.Call, cl ClosureV, pf *ssa.Function) []*State {
	fc := c.eng.contractFor(pf)
	if fc == nil {
		unsup("range-over-func loop body %s is not under contract", relFuncName(pf))
	}
	if !fc.ModGiven {
		unsup("range-over-func loop body %s has no modifies clause", relFuncName(pf))
	}
	k := yieldOrdinal(pf)
	tag := fmt.Sprintf("rf%d", k)
	lc := c.loopContract(fr.fn, rangeFuncOrdBase+k)
	c.assumptions["range-over-func composition: an iterator calls the loop body sequentially, zero or more times, stops once the body returns false, writes no modelled state itself, and yields only elements satisfying the `elem` clauses of the function that returned it"] = true
	// the iterator's producer (for elem facts)
	var itFC *FuncContract
	var itFn *ssa.Function
	var itArgs []Val
	if call, ok := x.Common().Value.(*ssa.Call); ok {
		if f, ok := call.Common().Value.(*ssa.Function); ok {
			itFn = f
			itFC = c.eng.contractFor(f)
			for _, a := range call.Common().Args {
				itArgs = append(itArgs, c.val(s, a))
			}
		}
	}
	// state variable cell
	var jumpCell Val
	var jumpFV *ssa.FreeVar
	for i, fv := range pf.FreeVars {
		if strings.HasPrefix(fv.Name(), "jump$") && i < len(cl.Bindings) {
			jumpCell = cl.Bindings[i]
			jumpFV = fv
		}
	}
	if jumpCell == nil {
		unsup("range-over-func body without state variable")
	}
	intT := types.Typ[types.Int]
	pos := x.Pos()
	// 1. invariant on entry
	if lc != nil {
		env := c.loopEnv(s, fr, nil)
		for i, inv := range lc.Invariants {
			c.obligeClauseAt(s, env, "inv-init", rfLabel(tag, inv, i), inv, pos)
		}
	} else {
		c.noteOnce(fmt.Sprintf("range-over-func loop %s of %s has no invariant (treated as true)", tag, fr.fn.Name()))
	}
	// 2. havoc what the body may modify. Evaluate the body's modifies clauses with fresh element values; a clause that
	// names a yielded element denotes a different location in every iteration and is widened to the whole heap.
	yargs := make([]Val, len(pf.Params))
	names := make([]string, len(pf.Params))
	var paramRe []*regexp.Regexp
	for i, p := range pf.Params {
		names[i] = p.Name()
		yargs[i] = c.freshVal(s, "rfh."+p.Name(), p.Type())
		paramRe = append(paramRe, regexp.MustCompile(`\b`+regexp.QuoteMeta(p.Name())+`\b`))
	}
	menv := c.newSpecEnv(s, fr)
	menv.pkg = pf.Pkg.Pkg
	if pc := c.eng.db.Pkgs[pf.Pkg.Pkg.Path()]; pc != nil {
		menv.pc = pc
	}
	menv.vars = map[string]Val{}
	for i, n := range names {
		menv.vars[n] = yargs[i]
	}
	c.bindYieldCaptures(pf, cl)
	for kk, v := range c.extraContractVars {
		menv.vars[kk] = v
	}
	c.extraContractVars = nil
	menv.old = s.snapshot()
	menv.lets = fc.Lets
	var mods []modEntry
	for _, mc := range fc.Modifies {
		var one []modEntry
		c.evalMod(menv, mc.Expr, &one)
		dependsOnElem := false
		for _, re := range paramRe {
			if re.MatchString(mc.Text) {
				dependsOnElem = true
			}
		}
		// lets may hide a dependence on the element
		for _, l := range fc.Lets {
			if regexp.MustCompile(`\b` + regexp.QuoteMeta(l.Name) + `\b`).MatchString(mc.Text) {
				for _, re := range paramRe {
					if re.MatchString(l.Text) {
						dependsOnElem = true
					}
				}
			}
		}
		if dependsOnElem {
			for i := range one {
				if !one[i].all {
					one[i].kind = modWholeHeap
				}
			}
		}
		mods = append(mods, one...)
	}
	if js, ok := jumpCell.(Scalar); ok {
		mods = append(mods, modEntry{heap: fieldHeapName("cell", "int", ""), sort: fmt.Sprintf("(Array Ref %s)", c.ar.idxSort()), kind: modSingle, ref: js.T})
	}
	nb := c.freshConst(s, "allocL", SInt)
	c.assume(s, fmt.Sprintf("(>= %s %s)", nb, c.allocTerm(s)))
	s.allocBase = nb
	s.allocCnt = 0
	// variable cells of the enclosing function that the body's contract does not list as modified keep their value
	type keptCell struct {
		lv LocV
		el types.Type
		v  Val
	}
	var kept []keptCell
	boundName := map[*ssa.Alloc]string{}
	if mk, ok := x.Common().Args[0].(*ssa.MakeClosure); ok {
		blanks := 0
		for i, fv := range pf.FreeVars {
			if i >= len(mk.Bindings) {
				break
			}
			name := fv.Name()
			if name == "_" {
				name = blankFreeVarName(pf, fv, blanks)
				blanks++
			}
			if a, ok := mk.Bindings[i].(*ssa.Alloc); ok {
				boundName[a] = name
			}
		}
	}
	for reg, rv := range fr.regs {
		al, ok := reg.(*ssa.Alloc)
		if !ok {
			continue
		}
		lv, ok := rv.(LocV)
		if !ok || lv.Kind != LocCell || len(lv.Proj) > 0 {
			continue
		}
		if name, bound := boundName[al]; bound {
			listed := strings.HasPrefix(name, "jump$")
			for _, mc := range fc.Modifies {
				if strings.TrimSpace(mc.Text) == name {
					listed = true // the variable itself is a modifies target
				}
			}
			if listed {
				continue
			}
		} else if c.cellAddressEscapes(al) {
			continue
		}
		el := al.Type().(*types.Pointer).Elem()
		kept = append(kept, keptCell{lv, el, c.loadAt(s, nil, lv, el)})
	}
	c.assumptions["range-over-func composition: the body's modifies clause is evaluated once, in the state before the loop (a body that redirects a modified slice or pointer to a different object that existed before the loop is outside the rule)"] = true
	c.havocLoop(s, mods, "alloc0")
	for _, kc := range kept {
		c.storeAt(s, kc.lv, kc.el, kc.v)
	}
	c.widenCallCounts(s, append(c.callNamesIn(pf.Blocks), relFuncName(pf)))
	// 3. assume the invariant
	if lc != nil {
		env := c.loopEnv(s, fr, nil)
		for _, inv := range lc.Invariants {
			c.assume(s, env.evalBool(inv.Expr))
		}
	}
	// 3a. exhausted
	sExit := s.clone()
	c.nextPathID++
	sExit.pathID = c.nextPathID
	{
		cur := c.loadAt(sExit, nil, jumpCell, intT).(Scalar)
		c.assume(sExit, fmt.Sprintf("(= %s %s)", cur.T, c.ar.idx(0)))
	}
	// 3b. one more element
	for i, p := range pf.Params {
		yargs[i] = c.freshVal(s, "rf."+p.Name(), p.Type())
		if sc, ok := yargs[i].(Scalar); ok && sc.S == SRef {
			c.assume(s, c.ptrFact(sc))
		}
		c.typeRangeAssume(s, yargs[i])
	}
	if itFC != nil && len(itFC.Elems) > 0 {
		eenv := c.newSpecEnv(s, fr)
		eenv.pkg = itFn.Pkg.Pkg
		if pc := c.eng.db.Pkgs[itFn.Pkg.Pkg.Path()]; pc != nil {
			eenv.pc = pc
		}
		eenv.vars = map[string]Val{}
		for i, p := range itFn.Params {
			if i < len(itArgs) {
				eenv.vars[p.Name()] = itArgs[i]
			}
		}
		if itFn.Signature.Recv() != nil && itFC.RecvName != "" && len(itArgs) > 0 {
			eenv.vars[itFC.RecvName] = itArgs[0]
		}
		for i := range pf.Params {
			eenv.vars[fmt.Sprintf("arg%d", i)] = yargs[i]
		}
		eenv.old = s.snapshot()
		eenv.lets = itFC.Lets
		for _, e := range itFC.Elems {
			c.assume(s, eenv.evalBool(e.Expr))
		}
		c.assumptions["assumed iterator contract (elements yielded): "+shortPkg(itFC.Pkg)+"."+itFC.Key] = true
	}
	c.storeAt(s, jumpCell, intT, Scalar{c.ar.idx(0), c.ar.idxSort(), intT})
	s.calllog = append(s.calllog, relFuncName(pf))
	c.bindYieldCaptures(pf, cl)
	res := c.applyContract(s, fr, x, fc, relFuncName(pf), names, "", yargs, pf.Signature, pf.Pkg)
	rs, ok := res.(Scalar)
	if !ok {
		unsup("range-over-func body result")
	}
	// the body always rewrites its state variable (it is not part of the body's modifies clause: protocol state of the
	// lowering): 0 when the loop continues, one of its exit codes otherwise (constrained below)
	c.storeAt(s, jumpCell, intT, c.freshVal(s, "rf.jump", intT))
	// continue: invariant re-established, path ends
	sT := s.clone()
	c.nextPathID++
	sT.pathID = c.nextPathID
	c.assume(sT, rs.T)
	{
		cur := c.loadAt(sT, nil, jumpCell, intT).(Scalar)
		c.assume(sT, fmt.Sprintf("(= %s %s)", cur.T, c.ar.idx(0)))
	}
	if lc != nil {
		env := c.loopEnv(sT, fr, nil)
		for i, inv := range lc.Invariants {
			c.obligeClauseAt(sT, env, "inv-step", rfLabel(tag, inv, i), inv, pos)
		}
	}
	c.npaths++
	// exit requested by the body: the state variable holds one of the exit codes the body stores (unless the body's
	// contract says which)
	c.assume(s, "(not "+rs.T+")")
	{
		cur := c.loadAt(s, nil, jumpCell, intT).(Scalar)
		codes := jumpExitCodes(pf, jumpFV)
		if len(codes) == 0 {
			// the body never asks for an exit: this path is infeasible
			c.npaths++
			return []*State{sExit}
		} else {
			var alts []string
			for _, v := range codes {
				alts = append(alts, fmt.Sprintf("(= %s %s)", cur.T, c.ar.idx(v)))
			}
			if len(alts) == 1 {
				c.assume(s, alts[0])
			} else {
				c.assume(s, "(or "+strings.Join(alts, " ")+")")
			}
		}
	}
	return []*State{sExit, s}
}

func rfLabel(tag string, cl *Clause, i int) string {
	if cl.Label != "" {
		return tag + "." + cl.Label
	}
	return fmt.Sprintf("%s.%d", tag, i)
}


// cellAddressEscapes: is the address of the variable stored somewhere or handed to anything but a load/store/closure?
func (c *Ctx) cellAddressEscapes(al *ssa.Alloc) bool {
	for _, ref := range *al.Referrers() {
		switch r := ref.(type) {
		case *ssa.Store:
			if r.Val == al {
				return true
			}
		case *ssa.UnOp, *ssa.DebugRef, *ssa.MakeClosure:
		default:
			return true
		}
	}
	return false
}
