package main

import (
	"regexp"
	"encoding/json"
	"flag"
	"fmt"
	"os"
	"path/filepath"
	"runtime"
	"sort"
	"strconv"
	"strings"
	"sync"
	"time"
)

var verifRoot = "/verif"

// outRoot: where out/, replays/ and evidence/ are written (VERIF_OUT_ROOT redirects them for experiments on scratch copies)
var outRoot = ""

func main() {
	if len(os.Args) < 2 {
		fmt.Fprintln(os.Stderr, "usage: govc check <PID> quick|thorough | govc vc -pkg P -func F | govc baseline <PID>...")
		os.Exit(2)
	}
	if r := os.Getenv("VERIF_ROOT"); r != "" {
		verifRoot = r
	}
	outRoot = verifRoot
	if r := os.Getenv("VERIF_OUT_ROOT"); r != "" {
		outRoot = r
	}
	switch os.Args[1] {
	case "vc":
		cmdVC(os.Args[2:])
	case "check":
		os.Exit(cmdCheck(os.Args[2:]))
	case "list":
		cmdList(os.Args[2:])
	case "replay":
		os.Exit(cmdReplay(os.Args[2:]))
	default:
		fmt.Fprintln(os.Stderr, "unknown command")
		os.Exit(2)
	}
}

func repoDir() string {
	if r := os.Getenv("VERIF_REPO"); r != "" {
		return r
	}
	return "/repo"
}

type oblStatus struct {
	Name      string
	Instances int
	Unsat     int
	Sat       int
	Unknown   int
	Trivial   int
	Reach     bool
	Solver    map[string]int
	Seconds   float64
	MaxS      float64 // slowest single query of this obligation
	FailInst  *Obligation
	FailRes   *SolveResult
	// further failing instances with a model (other paths): the replay tries them when the first one does not reproduce
	MoreInst []*Obligation
	MoreRes  []*SolveResult
	Goal     string
	Pos       string
}

func (o *oblStatus) Status() string {
	if o.Reach {
		if o.Sat > 0 {
			return "discharged"
		}
		if o.Unknown > 0 {
			return "discharged" // reachability not refuted
		}
		return "vacuous"
	}
	if o.Sat > 0 {
		return "failed"
	}
	if o.Unknown > 0 {
		return "unknown"
	}
	return "discharged"
}

// dischargeFunc runs all obligations of one function result.
func dischargeFunc(sv *Solver, fr *FuncResult, par int) map[string]*oblStatus {
	pre := preamble(fr.BV) + strings.Join(fr.Decls, "\n") + "\n"
	stats := map[string]*oblStatus{}
	var mu sync.Mutex
	sem := make(chan struct{}, par)
	var wg sync.WaitGroup
	// reachability (vacuity) guards: one satisfiable instance per name suffices; try instances until one is sat
	reachGroups := map[string][]*Obligation{}
	var reachNames []string
	for _, o := range fr.Obls {
		if o.Reach {
			if _, ok := reachGroups[o.Name()]; !ok {
				reachNames = append(reachNames, o.Name())
			}
			reachGroups[o.Name()] = append(reachGroups[o.Name()], o)
		}
	}
	for _, name := range reachNames {
		group := reachGroups[name]
		wg.Add(1)
		sem <- struct{}{}
		go func() {
			defer wg.Done()
			defer func() { <-sem }()
			st := &oblStatus{Name: name, Reach: true, Solver: map[string]int{}, Goal: group[0].Goal, Pos: group[0].Pos}
			for gi, o := range group {
				if gi >= 1 && st.Unsat == 0 || gi >= 64 {
					break // an inconclusive attempt is enough for a vacuity guard; after an unsat one, look further (paths
					// are enumerated without feasibility pruning, so the first few return points may all be infeasible)
				}
				r := sv.solve(o.Name(), pre+o.Script, nil, true)
				st.Instances++
				st.Seconds += r.Seconds
				st.Solver[r.Solver]++
				if r.Answer == "sat" {
					st.Sat++
					break
				} else if r.Answer == "unsat" {
					st.Unsat++
					if st.FailInst == nil {
						st.FailInst, st.FailRes = o, r
					}
				} else {
					st.Unknown++
				}
			}
			if st.Sat == 0 && st.Unknown == 0 && st.Instances < len(group) {
				st.Unknown++ // not every return point was tried: reachability is not refuted
			}
			mu.Lock()
			stats[name] = st
			mu.Unlock()
		}()
	}
	// batches: all obligations of one return point on one path, tried as a single query first
	batchDone := map[*Obligation]*SolveResult{}
	{
		groups := map[string][]*Obligation{}
		var order []string
		for _, o := range fr.Obls {
			if o.Reach || o.Batch == "" || sv.noBatch {
				continue
			}
			if fr.Contract != nil {
				n := o.Name()
				if _, skip := fr.Contract.Unclaimed[n[strings.Index(n, "/")+1:]]; skip {
					continue
				}
			}
			if _, ok := groups[o.Batch]; !ok {
				order = append(order, o.Batch)
			}
			groups[o.Batch] = append(groups[o.Batch], o)
		}
		var bmu sync.Mutex
		var bwg sync.WaitGroup
		for _, b := range order {
			g := groups[b]
			if len(g) < 2 {
				continue
			}
			bwg.Add(1)
			sem <- struct{}{}
			go func() {
				defer bwg.Done()
				defer func() { <-sem }()
				var sb strings.Builder
				sb.WriteString(g[0].BatchPrefix)
				var negs []string
				for _, o := range g {
					for _, d := range o.NegDecls {
						sb.WriteString(d)
						sb.WriteByte('\n')
					}
					negs = append(negs, o.NegTerm)
				}
				sb.WriteString("(assert (or " + strings.Join(negs, " ") + "))\n")
				r := sv.solveQuick("batch:"+g[0].Func, pre+sb.String())
				if r != nil && r.Answer == "unsat" {
					share := *r
					share.Seconds = r.Seconds / float64(len(g))
					bmu.Lock()
					for _, o := range g {
						batchDone[o] = &share
					}
					bmu.Unlock()
				}
			}()
		}
		bwg.Wait()
	}
	for _, o := range fr.Obls {
		o := o
		if o.Reach {
			continue
		}
		if r, ok := batchDone[o]; ok {
			mu.Lock()
			st := stats[o.Name()]
			if st == nil {
				st = &oblStatus{Name: o.Name(), Solver: map[string]int{}, Goal: o.Goal, Pos: o.Pos}
				stats[o.Name()] = st
			}
			st.Instances++
			st.Unsat++
			st.Seconds += r.Seconds
			st.Solver[r.Solver]++
			mu.Unlock()
			continue
		}
		if fr.Contract != nil {
			n := o.Name()
			if _, skip := fr.Contract.Unclaimed[n[strings.Index(n, "/")+1:]]; skip {
				mu.Lock()
				if stats[n] == nil {
					stats[n] = &oblStatus{Name: n, Solver: map[string]int{}, Goal: o.Goal, Pos: o.Pos}
				}
				stats[n].Instances++
				stats[n].Unknown++
				if stats[n].FailInst == nil {
					stats[n].FailInst, stats[n].FailRes = o, &SolveResult{Answer: "unclaimed", Solver: "none", Tried: []string{"unclaimed: not attempted"}}
				}
				mu.Unlock()
				continue
			}
		}
		wg.Add(1)
		sem <- struct{}{}
		go func() {
			defer wg.Done()
			defer func() { <-sem }()
			var terms []string
			for _, v := range o.Vars {
				terms = append(terms, v.Term)
			}
			for _, f := range o.Fields {
				if f.Term != "" {
					terms = append(terms, f.Term)
				}
				terms = append(terms, f.Extra...)
			}
			r := sv.solveH(o.Name(), pre+o.Script, terms, o.Hints, o.Reach)
			mu.Lock()
			defer mu.Unlock()
			st := stats[o.Name()]
			if st == nil {
				st = &oblStatus{Name: o.Name(), Reach: o.Reach, Solver: map[string]int{}, Goal: o.Goal, Pos: o.Pos}
				stats[o.Name()] = st
			}
			st.Instances++
			st.Seconds += r.Seconds
			if r.Seconds > st.MaxS {
				st.MaxS = r.Seconds
			}
			st.Solver[r.Solver]++
			switch r.Answer {
			case "unsat":
				st.Unsat++
				if o.Reach && st.FailInst == nil {
					st.FailInst, st.FailRes = o, r
				}
			case "sat":
				st.Sat++
				if !o.Reach {
					if st.FailInst == nil || (st.FailRes != nil && st.FailRes.Answer != "sat") {
						st.FailInst, st.FailRes = o, r
					} else if len(st.MoreInst) < 5 && r.Model != nil {
						st.MoreInst, st.MoreRes = append(st.MoreInst, o), append(st.MoreRes, r)
					}
				}
			default:
				st.Unknown++
				if !o.Reach {
					switch {
					case st.FailInst == nil:
						st.FailInst, st.FailRes = o, r
					case st.FailRes != nil && st.FailRes.Model == nil && r.Model != nil:
						st.FailInst, st.FailRes = o, r // an undecided instance that at least has a candidate model
					case r.Model != nil && len(st.MoreInst) < 5:
						st.MoreInst, st.MoreRes = append(st.MoreInst, o), append(st.MoreRes, r)
					}
				}
			}
		}()
	}
	wg.Wait()
	return stats
}

func cmdVC(args []string) {
	fs := flag.NewFlagSet("vc", flag.ExitOnError)
	pkg := fs.String("pkg", "", "package path relative to module (e.g. internal/flowcontrol)")
	fn := fs.String("func", "", "function key (substring match); empty = all")
	verbose := fs.Bool("v", false, "verbose")
	keep := fs.Bool("keep", false, "keep all smt files")
	tq := fs.Int("t", 10, "quick timeout")
	fs.Parse(args)
	eng, err := newEngine(repoDir(), filepath.Join(verifRoot, "contracts"))
	if err != nil {
		fmt.Fprintln(os.Stderr, "error:", err)
		os.Exit(2)
	}
	path := eng.modPath
	if *pkg != "" && *pkg != "." {
		path += "/" + *pkg
	}
	if err := eng.load([]string{path}); err != nil {
		fmt.Fprintln(os.Stderr, "load error:", err)
		os.Exit(2)
	}
	pc := eng.db.Pkgs[path]
	if pc == nil {
		fmt.Fprintln(os.Stderr, "no contracts for", path)
		os.Exit(2)
	}
	out := filepath.Join(outRoot, "out", "vc")
	os.RemoveAll(out)
	sv := newSolver(out, *tq, *tq*3)
	_ = keep
	bad := 0
	for _, key := range pc.Order {
		if *fn != "" && !strings.Contains(key, *fn) {
			if re, err := regexp.Compile(*fn); err != nil || !re.MatchString(key) {
				continue
			}
		}
		fc := pc.Funcs[key]
		if fc.Trusted != "" {
			fmt.Printf("== %s: trusted (%s)\n", key, fc.Trusted)
			continue
		}
		t0 := time.Now()
		fr := eng.verifyFunc(path, fc)
		gen := time.Since(t0)
		stats := dischargeFunc(sv, fr, runtime.NumCPU())
		var names []string
		for n := range stats {
			names = append(names, n)
		}
		sort.Strings(names)
		nd := 0
		for _, n := range names {
			if stats[n].Status() == "discharged" {
				nd++
			}
		}
		fmt.Printf("== %s: paths=%d queries=%d obligations=%d discharged=%d gen=%.2fs wall=%.1fs\n", key, fr.Paths, len(fr.Obls), len(names), nd, gen.Seconds(), time.Since(t0).Seconds())
		for _, u := range fr.Undecided {
			fmt.Printf("   UNDECIDED: %s\n", u)
			bad++
		}
		for _, n := range fr.Notes {
			fmt.Printf("   note: %s\n", n)
		}
		for _, n := range names {
			st := stats[n]
			if st.Status() != "discharged" || *verbose {
				fmt.Printf("   %-10s %s  [%d inst, %.2fs] %s %s\n", st.Status(), n, st.Instances, st.Seconds, st.Pos, st.Goal)
				if st.Status() != "discharged" {
					bad++
					if st.FailRes != nil {
						fmt.Printf("      solver: %v at %s (path %d) unsat=%d sat=%d unknown=%d\n", st.FailRes.Tried, st.FailInst.Pos, st.FailInst.PathID, st.Unsat, st.Sat, st.Unknown)
						if os.Getenv("GOVC_VC_REPLAY") != "" && st.FailRes.Model != nil && st.FailInst != nil {
							ri := writeReplay(eng, filepath.Join(outRoot, "out", "vcreplay"), "VC", n, st, fr)
							var rf ReplayFile
							readJSON(ri.path, &rf)
							fmt.Printf("      replay: %s %s\n", ri.status, rf.Replay["reason"])
							if os.Getenv("GOVC_VC_REPLAY") == "v" {
								fmt.Printf("%s\n----\n%s\n", rf.Replay["test_source"], rf.Replay["go_test_output"])
							}
						}
						if st.FailRes.Model != nil && st.FailInst != nil && os.Getenv("GOVC_VC_REPLAY") == "" {
							for _, v := range st.FailInst.Vars {
								if val, ok := st.FailRes.Model[v.Term]; ok {
									fmt.Printf("      %s = %s\n", v.Name, val)
								}
							}
							shown := 0
							for _, v := range st.FailInst.Fields {
								if val, ok := st.FailRes.Model[v.Term]; ok && v.Term != "" && v.Kind != "strlit" {
									if shown++; shown > 60 {
										fmt.Printf("      ... (%d locations in all; GOVC_VC_REPLAY=1 writes the full input)\n", len(st.FailInst.Fields))
										break
									}
									fmt.Printf("      %s = %s\n", v.Path, val)
								}
							}
						}
					}
				}
			}
		}
	}
	fmt.Printf("solver: queries=%d time=%.1fs backends=%v\n", sv.queries, sv.totalS, sv.byBackend)
	if bad > 0 {
		os.Exit(1)
	}
}

func cmdList(args []string) {
	eng, err := newEngine(repoDir(), filepath.Join(verifRoot, "contracts"))
	if err != nil {
		fmt.Fprintln(os.Stderr, "error:", err)
		os.Exit(2)
	}
	for p, pc := range eng.db.Pkgs {
		for _, k := range pc.Order {
			fmt.Println(p, k, pc.Funcs[k].Props)
		}
	}
}

// ---------- check ----------

type KnownFinding struct {
	Property   string `json:"property"`
	Obligation string `json:"obligation"`
	Status     string `json:"status"` // open | fixed
	What       string `json:"what"`
	Witness    string `json:"witness,omitempty"`
	Commit     string `json:"commit,omitempty"`
}

type Evidence struct {
	PropertyID  string                 `json:"property_id"`
	Tier        string                 `json:"tier"`
	Seed        int                    `json:"seed"`
	Level       string                 `json:"level"`
	Coverage    map[string]interface{} `json:"coverage"`
	Assumptions []string               `json:"assumptions"`
	WallS       float64                `json:"wall_s"`
	Violations  int                    `json:"violations"`
}

func readJSON(path string, v interface{}) error {
	b, err := os.ReadFile(path)
	if err != nil {
		return err
	}
	return json.Unmarshal(b, v)
}

func cmdCheck(args []string) int {
	if len(args) < 2 {
		fmt.Fprintln(os.Stderr, "usage: govc check <PID> quick|thorough")
		return 2
	}
	pid, tier := args[0], args[1]
	t0 := time.Now()
	seed := 0
	if s := os.Getenv("VERIF_SEED"); s != "" {
		seed, _ = strconv.Atoi(s)
	}
	eng, err := newEngine(repoDir(), filepath.Join(verifRoot, "contracts"))
	if err != nil {
		fmt.Fprintln(os.Stderr, "contract load error:", err)
		return 2
	}
	// functions and lemmas of this property
	type item struct {
		pkg string
		fc  *FuncContract
	}
	var items []item
	pkgSet := map[string]bool{}
	var pkgNames []string
	for p := range eng.db.Pkgs {
		pkgNames = append(pkgNames, p)
	}
	sort.Strings(pkgNames)
	var lemmas []*Lemma
	for _, p := range pkgNames {
		pc := eng.db.Pkgs[p]
		for _, k := range pc.Order {
			fc := pc.Funcs[k]
			for _, pr := range fc.Props {
				if pr == pid {
					items = append(items, item{p, fc})
					pkgSet[p] = true
				}
			}
		}
		for _, lm := range pc.Lemmas {
			for _, pr := range lm.Props {
				if pr == pid {
					lemmas = append(lemmas, lm)
					pkgSet[p] = true
				}
			}
		}
	}
	if len(items) == 0 && len(lemmas) == 0 {
		fmt.Fprintf(os.Stderr, "no contracts own property %s\n", pid)
		return 2
	}
	var pkgs []string
	for p := range pkgSet {
		pkgs = append(pkgs, p)
	}
	sort.Strings(pkgs)
	if err := eng.load(pkgs); err != nil {
		// the tree does not build: not a property violation, report undecided
		fmt.Printf("UNDECIDED property=%s reason=load-error: %v\n", pid, err)
		writeEvidence(pid, tier, seed, "other", map[string]interface{}{"explanation": "repository failed to load: " + err.Error(), "evaluations": 1, "distinct_nontrivial": 0}, nil, time.Since(t0).Seconds(), 0)
		return 0
	}
	quickT, longT := 10, 60
	if tier == "thorough" {
		quickT, longT = 30, 120
	}
	outDir := filepath.Join(outRoot, "out", fmt.Sprintf("%s.%d", pid, os.Getpid()))
	sv := newSolver(outDir, quickT, longT)
	// thorough: every obligation instance gets its own query (no batching of a return point's obligations), longer
	// solver timeouts, and the larger bounds of the bounded stand-ins
	sv.noBatch = tier == "thorough"
	sv.crossCheck = tier == "thorough"
	defer os.RemoveAll(outDir)

	var baseline map[string][]string
	readJSON(filepath.Join(verifRoot, "baseline_obligations.json"), &baseline)
	inBaseline := map[string]bool{}
	for _, n := range baseline[pid] {
		inBaseline[n] = true
	}
	var known []KnownFinding
	readJSON(filepath.Join(verifRoot, "known_findings.json"), &known)

	// verify functions in parallel (generation is CPU-bound and independent per function)
	results := make([]*FuncResult, len(items))
	stats := make([]map[string]*oblStatus, len(items))
	var wg sync.WaitGroup
	sem := make(chan struct{}, 4)
	for i, it := range items {
		i, it := i, it
		if it.fc.Trusted != "" {
			continue
		}
		wg.Add(1)
		sem <- struct{}{}
		go func() {
			defer wg.Done()
			defer func() { <-sem }()
			results[i] = eng.verifyFunc(it.pkg, it.fc)
			stats[i] = dischargeFunc(sv, results[i], runtime.NumCPU())
		}()
	}
	wg.Wait()
	lemmaRes := runLemmas(eng, sv, lemmas)

	total, discharged, undecidedN, violations := 0, 0, 0, 0
	var samples []interface{}
	var allNames []string
	assumptions := map[string]bool{}
	var undecidedList, trusted, funcsUnderContract, knownHit, unclaimedList, slow, trivialNames []string
	vacuity := 0
	exit := 0
	replayDir := filepath.Join(outRoot, "replays", pid)
	for i, it := range items {
		if it.fc.Trusted != "" {
			trusted = append(trusted, shortPkg(it.pkg)+"."+it.fc.Key+": "+it.fc.Trusted)
			continue
		}
		fr := results[i]
		funcsUnderContract = append(funcsUnderContract, shortPkg(it.pkg)+"."+it.fc.Key)
		for _, a := range fr.Assumptions {
			assumptions[a] = true
		}
		for _, tn := range fr.Trivial {
			if _, solved := stats[i][tn]; !solved {
				trivialNames = append(trivialNames, tn)
			}
		}
		for _, u := range fr.Undecided {
			fmt.Printf("UNDECIDED property=%s function=%s reason=%s\n", pid, fr.Name, u)
			undecidedList = append(undecidedList, fr.Name+": "+u)
			undecidedN++
		}
		var names []string
		for n := range stats[i] {
			names = append(names, n)
		}
		sort.Strings(names)
		for _, n := range names {
			st := stats[i][n]
			if st.Reach {
				vacuity++
			}
			// unclaimed?
			suffix := n[strings.Index(n, "/")+1:]
			if reason, ok := it.fc.Unclaimed[suffix]; ok {
				unclaimedList = append(unclaimedList, n+": "+reason+" ("+st.Status()+")")
				continue
			}
			total++
			allNames = append(allNames, n)
			if st.MaxS > 3 {
				slow = append(slow, fmt.Sprintf("%s: slowest query %.1fs", n, st.MaxS))
			}
			switch st.Status() {
			case "discharged":
				discharged++
				if len(samples) < 6 {
					samples = append(samples, map[string]interface{}{"obligation": n, "instances": st.Instances, "solver": st.Solver, "goal": st.Goal, "pos": st.Pos})
				}
			case "failed", "vacuous":
				if kf := matchKnown(known, pid, n); kf != nil {
					fmt.Printf("KNOWN-FINDING: property=%s %s: %s\n", pid, n, kf.What)
					knownHit = append(knownHit, n)
					total--
					continue
				}
				rp := writeReplay(eng, replayDir, pid, n, st, fr)
				tail := ""
				if rp.status != "confirmed" {
					tail = " no-failing-input-found"
				}
				fmt.Printf("VIOLATION property=%s replay=%s obligation=%s%s\n", pid, rp.path, n, tail)
				violations++
				exit = 1
			case "unknown":
				if inBaseline[n] {
					if kf := matchKnown(known, pid, n); kf != nil {
						fmt.Printf("KNOWN-FINDING: property=%s %s: %s\n", pid, n, kf.What)
						knownHit = append(knownHit, n)
						total--
						continue
					}
					rp := writeReplay(eng, replayDir, pid, n, st, fr)
					tail := ""
					if rp.status != "confirmed" {
						tail = " no-failing-input-found"
					}
					fmt.Printf("VIOLATION property=%s replay=%s obligation=%s%s\n", pid, rp.path, n, tail)
					violations++
					exit = 1
				} else {
					// a new obligation the solvers cannot decide is not a violation -- unless a candidate counterexample
					// (quantifier-free weakening) makes the real code exhibit it
					if st.FailRes != nil && st.FailRes.Candidate && matchKnown(known, pid, n) == nil {
						if rp := writeReplay(eng, replayDir, pid, n, st, fr); rp.status == "confirmed" {
							fmt.Printf("VIOLATION property=%s replay=%s obligation=%s\n", pid, rp.path, n)
							violations++
							exit = 1
							continue
						}
					}
					fmt.Printf("UNDECIDED property=%s obligation=%s (solver: %v)\n", pid, n, st.FailRes.Tried)
					undecidedList = append(undecidedList, n)
					undecidedN++
				}
			}
		}
	}
	for _, lr := range lemmaRes {
		total++
		allNames = append(allNames, lr.name)
		if lr.ok {
			discharged++
			samples = append(samples, map[string]interface{}{"obligation": lr.name, "solver": lr.res.Solver, "seconds": lr.res.Seconds})
		} else if kf := matchKnown(known, pid, lr.name); kf != nil {
			fmt.Printf("KNOWN-FINDING: property=%s %s: %s\n", pid, lr.name, kf.What)
			total--
		} else if lr.res != nil && lr.res.Answer == "sat" || inBaseline[lr.name] {
			p := writeLemmaReplay(replayDir, pid, lr)
			fmt.Printf("VIOLATION property=%s replay=%s obligation=%s no-failing-input-found\n", pid, p, lr.name)
			violations++
			exit = 1
		} else {
			why := lr.msg
			if lr.res != nil {
				why = fmt.Sprintf("%v", lr.res.Tried)
			}
			fmt.Printf("UNDECIDED property=%s obligation=%s (%s)\n", pid, lr.name, why)
			undecidedList = append(undecidedList, lr.name)
			undecidedN++
		}
	}
	// bounded stand-ins (never counted as discharged obligations)
	var boundedCov []interface{}
	for _, sp := range loadBounded(pid) {
		br := runBounded(repoDir(), pid, tier, sp)
		entry := map[string]interface{}{"name": sp.Name, "label": "bounded", "stands_in_for": sp.StandsInFor, "bound": sp.Bound[tier],
			"cases": br.Cases, "stats": br.Stats, "status": br.Status, "seconds": round2(br.Seconds)}
		boundedCov = append(boundedCov, entry)
		switch br.Status {
		case "ok":
			fmt.Printf("bounded property=%s name=%s cases=%d status=ok (%.1fs) [bounded stand-in, not a proof]\n", pid, sp.Name, br.Cases, br.Seconds)
		case "fail":
			rp := writeBoundedReplay(replayDir, pid, br, tier)
			for _, f := range br.Fails {
				fmt.Printf("bounded-fail property=%s %s\n", pid, f)
			}
			fmt.Printf("VIOLATION property=%s replay=%s obligation=bounded:%s\n", pid, rp, sp.Name)
			violations++
			exit = 1
		default:
			fmt.Printf("UNDECIDED property=%s bounded=%s reason=%s\n", pid, sp.Name, br.Status)
			undecidedList = append(undecidedList, "bounded:"+sp.Name+": "+br.Status+": "+truncate(br.Output, 300))
			undecidedN++
		}
	}
	// obligations in the baseline that no longer exist (function changed shape): undecided, not a violation
	have := map[string]bool{}
	for _, n := range allNames {
		have[n] = true
	}
	var missing []string
	for n := range inBaseline {
		if !have[n] {
			missing = append(missing, n)
		}
	}
	sort.Strings(missing)
	for _, a := range globalAssumptions {
		assumptions[a] = true
	}
	level := "proof"
	if undecidedN > 0 || discharged < total {
		level = "other"
	}
	cov := map[string]interface{}{
		"obligations": total, "discharged": discharged,
		"checker_cmd":  fmt.Sprintf("./check %s %s", pid, tier),
		"trusted_base": trustedBase(trusted),
		"functions_under_contract": funcsUnderContract,
		"by_backend":   sv.byBackend, "solver_s": round2(sv.totalS), "smt_queries": sv.queries,
		"undecided":    undecidedList, "vacuity_checks": vacuity, "known_findings": knownHit,
		"unclaimed":    unclaimedList, "baseline_missing": missing,
		"samples":      samples,
		"bounded_stand_ins": boundedCov,
		"slow_queries_over_3s": slow,
		"second_solver_agreement": map[string]interface{}{"enabled": sv.crossCheck, "agree": sv.crossAgree, "second_solver_no_answer": sv.crossNone, "disagreements": sv.crossDisagree},
		"explanation":  "contract-based deductive verification: weakest-precondition style VCs generated from go/ssa of /repo's working tree, discharged by z3/cvc5; see DESIGN.md",
		"evaluations": total, "distinct_nontrivial": discharged,
	}
	for _, d := range sv.crossDisagree {
		// two solvers contradict each other on one query: nothing can be concluded from either
		fmt.Printf("UNDECIDED property=%s solver-disagreement %s\n", pid, d)
	}
	writeEvidence(pid, tier, seed, level, cov, sortedKeys(assumptions), time.Since(t0).Seconds(), violations)
	if os.Getenv("GOVC_WRITE_BASELINE") != "" {
		// names whose goal folded to true on the reference tree are part of the baseline as well (never counted as obligations)
		updateBaseline(pid, items2names(append(append([]string(nil), allNames...), trivialNames...)))
	}
	fmt.Printf("property=%s tier=%s obligations=%d discharged=%d undecided=%d violations=%d known=%d wall=%.1fs\n", pid, tier, total, discharged, undecidedN, violations, len(knownHit), time.Since(t0).Seconds())
	return exit
}

func items2names(n []string) []string { sort.Strings(n); return n }

func round2(f float64) float64 { return float64(int(f*100)) / 100 }

func matchKnown(known []KnownFinding, pid, obl string) *KnownFinding {
	for i := range known {
		k := &known[i]
		if k.Property == pid && k.Obligation == obl && k.Status == "open" {
			return k
		}
	}
	return nil
}

func updateBaseline(pid string, names []string) {
	path := filepath.Join(verifRoot, "baseline_obligations.json")
	var baseline map[string][]string
	readJSON(path, &baseline)
	if baseline == nil {
		baseline = map[string][]string{}
	}
	baseline[pid] = names
	b, _ := json.MarshalIndent(baseline, "", " ")
	os.WriteFile(path, b, 0o644)
}

func writeEvidence(pid, tier string, seed int, level string, cov map[string]interface{}, assumptions []string, wall float64, violations int) {
	ev := Evidence{PropertyID: pid, Tier: tier, Seed: seed, Level: level, Coverage: cov, Assumptions: assumptions, WallS: round2(wall), Violations: violations}
	if ev.Assumptions == nil {
		ev.Assumptions = []string{}
	}
	os.MkdirAll(filepath.Join(outRoot, "evidence"), 0o755)
	b, _ := json.MarshalIndent(ev, "", " ")
	os.WriteFile(filepath.Join(outRoot, "evidence", pid+".json"), b, 0o644)
}

var globalAssumptions = []string{
	"go/ssa (x/tools v0.50.0) is a faithful lowering of the Go source",
	"SMT solver answers (z3 4.8.12, z3 5.1.0, cvc5 1.0) are correct",
	"sync.Mutex/RWMutex operations are no-ops (sequential semantics; each object's methods run under its lock)",
	"logger / qlog / fmt calls are effect-free on modelled state",
	"pointer receivers and pointer parameters are non-nil unless declared nilable; pointer dereferences are assumed non-nil except in functions marked 'check nil'",
	"float64/float32 arithmetic is treated as exact real arithmetic",
	"termination is only checked where a 'decreases' clause is given",
}

func trustedBase(trusted []string) []string {
	tb := []string{"govc VC generator (this repository)", "go/packages + go/ssa v0.50.0", "z3-new 5.1.0 / cvc5 1.0 / z3 4.8.12"}
	for _, t := range trusted {
		tb = append(tb, "trusted contract: "+t)
	}
	return tb
}
