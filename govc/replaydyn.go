package main

// Replay support: compile a contract clause into Go that is evaluated DYNAMICALLY (every value is an `any`, integers are
// mathematical big integers as in the verifier's integer mode). This avoids the type errors a syntactic translation
// into statically typed Go runs into (mixed named integer types, ite of different types, untyped nil).

import (
	"fmt"
	"go/ast"
	"go/token"
	"go/types"
	"sort"
	"strings"
)

type dynCompiler struct {
	eng    *Engine
	pkg    *types.Package
	pc     *PkgContracts
	olds   []string          // dynamic Go expressions captured before the call
	subst  map[string]string // name -> Go expression
	dynSub map[string]bool   // the substituted expression already has type any
	lets   []*LetDef
	bound  map[string]bool // quantifier variables (Go ints)
	mapKey map[string]bool // quantifier variables ranging over the keys of a map (dynamic values)
	// field names that must be read through reflection (unexported fields of another package's struct)
	dynFields map[string]bool
	// Go types of the program variables the clause can name (parameters, results), for choosing receiver predicates
	varTypes map[string]types.Type
	failed string
	depth  int
}

func (g *dynCompiler) fail(msg string) string {
	if g.failed == "" {
		g.failed = msg
	}
	return "any(false)"
}

// nameable: can the type expression be written in a test file of the function's package?
func (g *dynCompiler) nameable(x ast.Expr) bool {
	switch v := x.(type) {
	case *ast.StarExpr:
		return g.nameable(v.X)
	case *ast.ParenExpr:
		return g.nameable(v.X)
	case *ast.Ident:
		return true
	case *ast.SelectorExpr:
		if id, ok := v.X.(*ast.Ident); ok {
			if g.pkg != nil && id.Name == g.pkg.Name() {
				return true
			}
			return ast.IsExported(v.Sel.Name)
		}
	}
	return false
}

func derefType(t types.Type) types.Type {
	if p, ok := t.Underlying().(*types.Pointer); ok {
		return p.Elem()
	}
	return t
}

// typeOf: best-effort Go type of a contract expression that denotes a program value (nil when unknown).
func (g *dynCompiler) typeOf(x ast.Expr) types.Type {
	switch v := x.(type) {
	case *ast.ParenExpr:
		return g.typeOf(v.X)
	case *ast.Ident:
		if t, ok := g.varTypes[v.Name]; ok {
			return t
		}
		for _, l := range g.lets {
			if l.Name == v.Name {
				if g.depth > 30 {
					return nil
				}
				g.depth++
				defer func() { g.depth-- }()
				return g.typeOf(l.Expr)
			}
		}
	case *ast.StarExpr:
		if t := g.typeOf(v.X); t != nil {
			return derefType(t)
		}
	case *ast.SelectorExpr:
		if t := g.typeOf(v.X); t != nil {
			obj, _, _ := types.LookupFieldOrMethod(t, true, g.pkg, v.Sel.Name)
			if f, ok := obj.(*types.Var); ok {
				return f.Type()
			}
			// unexported field of another package: look it up in that package
			if n := namedOf(derefType(t)); n != nil {
				obj, _, _ := types.LookupFieldOrMethod(t, true, n.Obj().Pkg(), v.Sel.Name)
				if f, ok := obj.(*types.Var); ok {
					return f.Type()
				}
			}
		}
	case *ast.IndexExpr:
		if t := g.typeOf(v.X); t != nil {
			switch u := t.Underlying().(type) {
			case *types.Slice:
				return u.Elem()
			case *types.Array:
				return u.Elem()
			case *types.Map:
				return u.Elem()
			}
		}
	case *ast.CallExpr:
		if id, ok := v.Fun.(*ast.Ident); ok && (id.Name == "dyn" || id.Name == "old") && len(v.Args) >= 1 {
			if id.Name == "old" {
				return g.typeOf(v.Args[0])
			}
			return g.typeExpr(v.Args[1])
		}
	}
	return nil
}

// typeExpr resolves a type written in a contract (T, *T, pkg.T, *pkg.T).
func (g *dynCompiler) typeExpr(x ast.Expr) types.Type {
	switch v := x.(type) {
	case *ast.ParenExpr:
		return g.typeExpr(v.X)
	case *ast.StarExpr:
		if t := g.typeExpr(v.X); t != nil {
			return types.NewPointer(t)
		}
	case *ast.Ident:
		if g.pkg != nil {
			if o, ok := g.pkg.Scope().Lookup(v.Name).(*types.TypeName); ok {
				return o.Type()
			}
		}
	case *ast.SelectorExpr:
		if id, ok := v.X.(*ast.Ident); ok {
			if p := g.eng.pkgByName(id.Name); p != nil {
				if o, ok := p.Scope().Lookup(v.Sel.Name).(*types.TypeName); ok {
					return o.Type()
				}
			}
		}
	}
	return nil
}

// hasGuardMap: for a quantifier body implies(A, B) whose antecedent has the conjunct has(M, k), the map expression M.
func hasGuardMap(body ast.Expr, k string) ast.Expr {
	call, ok := body.(*ast.CallExpr)
	if !ok {
		return nil
	}
	id, ok := call.Fun.(*ast.Ident)
	if !ok || id.Name != "implies" || len(call.Args) != 2 {
		return nil
	}
	var find func(e ast.Expr) ast.Expr
	find = func(e ast.Expr) ast.Expr {
		switch x := e.(type) {
		case *ast.ParenExpr:
			return find(x.X)
		case *ast.BinaryExpr:
			if x.Op == token.LAND {
				if m := find(x.X); m != nil {
					return m
				}
				return find(x.Y)
			}
		case *ast.CallExpr:
			if f, ok := x.Fun.(*ast.Ident); ok && f.Name == "has" && len(x.Args) == 2 {
				if kid, ok := x.Args[1].(*ast.Ident); ok && kid.Name == k {
					return x.Args[0]
				}
			}
		}
		return nil
	}
	return find(call.Args[0])
}

func (g *dynCompiler) isLet(name string) bool {
	for _, l := range g.lets {
		if l.Name == name {
			return true
		}
	}
	return false
}

// static: a typed Go expression denoting a program value (variable, field, element, type assertion, len).
func (g *dynCompiler) static(x ast.Expr) (string, bool) {
	switch v := x.(type) {
	case *ast.ParenExpr:
		s, ok := g.static(v.X)
		return "(" + s + ")", ok
	case *ast.Ident:
		switch v.Name {
		case "true", "false", "nil":
			return "", false
		}
		if g.mapKey[v.Name] {
			return "", false
		}
		if g.bound[v.Name] {
			return v.Name, true
		}
		if s, ok := g.subst[v.Name]; ok {
			if g.dynSub[v.Name] {
				return "", false
			}
			return s, true
		}
		for _, l := range g.lets {
			if l.Name == v.Name {
				if g.depth > 30 {
					return "", false
				}
				g.depth++
				defer func() { g.depth-- }()
				return g.static(l.Expr) // a let that merely names a program value stays static
			}
		}
		if g.pc != nil {
			if _, ok := g.pc.Consts[v.Name]; ok {
				return "", false
			}
		}
		return v.Name, true
	case *ast.SelectorExpr:
		if g.dynFields[v.Sel.Name] {
			return "", false
		}
		if s, ok := g.static(v.X); ok {
			return s + "." + v.Sel.Name, true
		}
	case *ast.StarExpr:
		if s, ok := g.static(v.X); ok {
			return "(*" + s + ")", true
		}
	case *ast.IndexExpr:
		if id, ok := v.Index.(*ast.Ident); ok && g.mapKey[id.Name] {
			return "", false // map lookup by a quantified key: evaluated through reflection
		}
		if s, ok := g.static(v.X); ok {
			return s + "[verifInt(" + g.expr(v.Index) + ")]", true
		}
	case *ast.SliceExpr:
		if s, ok := g.static(v.X); ok {
			lo, hi := "", ""
			if v.Low != nil {
				lo = "verifInt(" + g.expr(v.Low) + ")"
			}
			if v.High != nil {
				hi = "verifInt(" + g.expr(v.High) + ")"
			}
			return s + "[" + lo + ":" + hi + "]", true
		}
	case *ast.CallExpr:
		if id, ok := v.Fun.(*ast.Ident); ok {
			switch id.Name {
			case "dyn":
				if s, ok := g.static(v.Args[0]); ok && g.nameable(v.Args[1]) {
					return "(" + s + ").(" + types.ExprString(v.Args[1]) + ")", true
				}
			case "len", "cap":
				if s, ok := g.static(v.Args[0]); ok {
					return id.Name + "(" + s + ")", true
				}
			}
		}
	}
	return "", false
}

var dynIntConv = map[string]bool{"int": true, "int8": true, "int16": true, "int32": true, "int64": true, "uint": true, "uint8": true,
	"uint16": true, "uint32": true, "uint64": true, "byte": true, "tomath": true}

// expr: Go expression of type any.
func (g *dynCompiler) expr(x ast.Expr) string {
	if s, ok := g.static(x); ok {
		return "any(" + s + ")"
	}
	switch v := x.(type) {
	case *ast.ParenExpr:
		return g.expr(v.X)
	case *ast.BasicLit:
		if v.Kind == token.INT {
			return "verifLit(\"" + v.Value + "\")"
		}
		return "any(" + v.Value + ")"
	case *ast.Ident:
		switch v.Name {
		case "true", "false":
			return "any(" + v.Name + ")"
		case "nil":
			return "any(verifNil{})"
		}
		if g.mapKey[v.Name] {
			return v.Name
		}
		if s, ok := g.subst[v.Name]; ok {
			return s // dynamic substitution
		}
		for _, l := range g.lets {
			if l.Name == v.Name {
				g.depth++
				defer func() { g.depth-- }()
				if g.depth > 30 {
					return g.fail("let recursion")
				}
				return g.expr(l.Expr)
			}
		}
		if g.pc != nil {
			if ce, ok := g.pc.Consts[v.Name]; ok {
				return g.expr(ce)
			}
		}
		return g.fail("unknown identifier " + v.Name)
	case *ast.UnaryExpr:
		switch v.Op {
		case token.NOT:
			return "verifNot(" + g.expr(v.X) + ")"
		case token.SUB:
			return "verifBin(\"-\", verifLit(\"0\"), " + g.expr(v.X) + ")"
		}
		return g.fail("unary " + v.Op.String())
	case *ast.BinaryExpr:
		switch v.Op {
		case token.LAND:
			return "verifAnd(" + g.expr(v.X) + ", func() any { return " + g.expr(v.Y) + " })"
		case token.LOR:
			return "verifOr(" + g.expr(v.X) + ", func() any { return " + g.expr(v.Y) + " })"
		}
		return "verifBin(\"" + v.Op.String() + "\", " + g.expr(v.X) + ", " + g.expr(v.Y) + ")"
	case *ast.CallExpr:
		return g.call(v)
	case *ast.SelectorExpr:
		return "verifGet(" + g.expr(v.X) + ", \"" + v.Sel.Name + "\")"
	case *ast.IndexExpr:
		return "verifIndex(" + g.expr(v.X) + ", " + g.expr(v.Index) + ")"
	case *ast.StarExpr:
		return "verifDeref(" + g.expr(v.X) + ")"
	case *ast.SliceExpr:
		return g.fail("slicing of a computed value")
	}
	return g.fail(fmt.Sprintf("unsupported expression %T", x))
}

func (g *dynCompiler) call(v *ast.CallExpr) string {
	arg := func(i int) string { return g.expr(v.Args[i]) }
	if id, ok := v.Fun.(*ast.Ident); ok {
		switch id.Name {
		case "old":
			sub := &dynCompiler{eng: g.eng, pkg: g.pkg, pc: g.pc, subst: g.subst, dynSub: g.dynSub, lets: g.lets, bound: g.bound, mapKey: g.mapKey, dynFields: g.dynFields, varTypes: g.varTypes}
			e := sub.expr(v.Args[0])
			if sub.failed != "" {
				return g.fail(sub.failed)
			}
			if len(g.bound) > 0 {
				return g.fail("old() under a quantifier")
			}
			g.olds = append(g.olds, e)
			return fmt.Sprintf("old%d", len(g.olds)-1)
		case "implies":
			return "verifOr(verifNot(" + arg(0) + "), func() any { return " + arg(1) + " })"
		case "iff":
			return "verifBin(\"==\", any(verifBool(" + arg(0) + ")), any(verifBool(" + arg(1) + ")))"
		case "ite":
			return "verifIteD(" + arg(0) + ", func() any { return " + arg(1) + " }, func() any { return " + arg(2) + " })"
		case "min", "max":
			r := arg(0)
			for i := 1; i < len(v.Args); i++ {
				r = "verifMinMax(\"" + id.Name + "\", " + r + ", " + arg(i) + ")"
			}
			return r
		case "len", "cap":
			return "verifLenCap(\"" + id.Name + "\", " + arg(0) + ")"
		case "dyn":
			return arg(0) // the dynamic value itself: fields are read through reflection
		case "iserr":
			if s, ok := g.static(v.Args[0]); ok {
				return "any(verifIsErr(" + s + ", uint64(verifInt(" + arg(1) + "))))"
			}
			return g.fail("iserr of a computed value")
		case "typeis":
			if s, ok := g.static(v.Args[0]); ok && g.nameable(v.Args[1]) {
				return "any(verifTypeIs[" + types.ExprString(v.Args[1]) + "](" + s + "))"
			}
			// a type the test cannot name: compare reflect's spelling of the dynamic type
			return "any(verifTypeName(" + arg(0) + ") == \"" + types.ExprString(v.Args[1]) + "\")"
		case "forall", "exists":
			if len(v.Args) >= 4 {
				k := v.Args[0].(*ast.Ident).Name
				if g.bound == nil {
					g.bound = map[string]bool{}
				}
				was := g.bound[k]
				g.bound[k] = true
				body := g.expr(v.Args[3])
				g.bound[k] = was
				return fmt.Sprintf("verifQuant(%q, %s, %s, func(%s int) any { return %s })", id.Name, arg(1), arg(2), k, body)
			}
			// forall(k, T, implies(has(M, k) && ..., body)): the keys of M are the only ones that matter
			if len(v.Args) == 3 && id.Name == "forall" {
				if m := hasGuardMap(v.Args[2], v.Args[0].(*ast.Ident).Name); m != nil {
					k := v.Args[0].(*ast.Ident).Name
					if g.mapKey == nil {
						g.mapKey = map[string]bool{}
					}
					was := g.mapKey[k]
					g.mapKey[k] = true
					body := g.expr(v.Args[2])
					g.mapKey[k] = was
					return fmt.Sprintf("verifQuantMap(%s, func(%s any) any { return %s })", g.expr(m), k, body)
				}
			}
			return g.fail("unbounded quantifier (not executable)")
		case "has":
			if len(v.Args) == 2 {
				return "verifHas(" + arg(0) + ", " + arg(1) + ")"
			}
			return g.fail("has: arity")
		case "called":
			// calls of a function-valued field are observable: Fill installs counting no-op callbacks
			if len(v.Args) == 1 {
				if lit, ok := v.Args[0].(*ast.BasicLit); ok && strings.HasPrefix(strings.Trim(lit.Value, "\""), "field:") {
					return "vb.Called(\"" + strings.TrimPrefix(strings.Trim(lit.Value, "\""), "field:") + "\")"
				}
			}
			return g.fail("clause uses called on a function or method (not observable without instrumentation)")
		case "isfresh", "separate", "sameroot", "samebacking", "samearray", "alias", "lastresult", "lastresultb", "lastarg", "callarg", "aftercall", "ufi", "uf", "ufb", "calledinloop", "callindex", "in", "forall2", "trig", "atrig":
			return g.fail("clause uses " + id.Name + " (not executable)")
		}
		if sf := findSpecIn(g.eng, g.pc, id.Name, ""); sf != nil {
			return g.inlineSpec(sf, nil, v.Args)
		}
		if dynIntConv[id.Name] && len(v.Args) == 1 {
			return "verifConv(\"" + id.Name + "\", " + arg(0) + ")"
		}
		if len(v.Args) == 1 {
			// conversion to a named type: mathematically the identity (the range is what the contract states elsewhere)
			return arg(0)
		}
		return g.fail("unsupported call " + id.Name)
	}
	if sel, ok := v.Fun.(*ast.SelectorExpr); ok {
		if id, ok := sel.X.(*ast.Ident); ok {
			if _, isSub := g.subst[id.Name]; !isSub && !g.bound[id.Name] {
				for _, pc := range g.eng.db.Pkgs {
					if shortPkg(pc.Pkg) == id.Name {
						if sf, ok := pc.Specs[sel.Sel.Name]; ok {
							return g.inlineSpec(sf, nil, v.Args)
						}
					}
				}
			}
		}
		// receiver predicate x.p(...): predicates are keyed "<RecvType>.<name>". The receiver's type is worked out where
		// the expression allows (variables, fields, dyn(x, T)); otherwise the current package's predicates are preferred
		// (names like inv() recur across packages)
		if rt := g.typeOf(sel.X); rt != nil {
			if n := namedOf(derefType(rt)); n != nil && n.Obj().Pkg() != nil {
				if pc := g.eng.db.Pkgs[n.Obj().Pkg().Path()]; pc != nil {
					if sf, ok := pc.Specs[n.Obj().Name()+"."+sel.Sel.Name]; ok {
						return g.inlineSpec(sf, sel.X, v.Args)
					}
				}
			}
		}
		var order []*PkgContracts
		if g.pc != nil {
			order = append(order, g.pc)
		}
		var rest []string
		for path := range g.eng.db.Pkgs {
			rest = append(rest, path)
		}
		sort.Strings(rest)
		for _, path := range rest {
			if pc := g.eng.db.Pkgs[path]; pc != g.pc {
				order = append(order, pc)
			}
		}
		for _, pc := range order {
			var keys []string
			for key := range pc.Specs {
				keys = append(keys, key)
			}
			sort.Strings(keys)
			for _, key := range keys {
				sf := pc.Specs[key]
				if sf.RecvType != "" && strings.HasSuffix(key, "."+sel.Sel.Name) && sf.Name == sel.Sel.Name {
					return g.inlineSpec(sf, sel.X, v.Args)
				}
			}
		}
		if len(v.Args) == 1 {
			return arg(0) // pkg.Type(x) conversion
		}
		return g.fail("unsupported call " + types.ExprString(sel))
	}
	return g.fail("unsupported call")
}

func (g *dynCompiler) inlineSpec(sf *SpecFunc, recv ast.Expr, args []ast.Expr) string {
	g.depth++
	defer func() { g.depth-- }()
	if g.depth > 30 {
		return g.fail("spec recursion")
	}
	ns := map[string]string{}
	nd := map[string]bool{}
	for k, v := range g.subst {
		ns[k] = v
		nd[k] = g.dynSub[k]
	}
	bindArg := func(name string, a ast.Expr) {
		if s, ok := g.static(a); ok {
			ns[name] = "(" + s + ")"
			nd[name] = false
		} else {
			ns[name] = "(" + g.expr(a) + ")"
			nd[name] = true
		}
	}
	for i, p := range sf.Params {
		if i < len(args) {
			bindArg(p, args[i])
		}
	}
	if recv != nil {
		bindArg(sf.RecvName, recv)
	}
	sub := &dynCompiler{eng: g.eng, pkg: g.pkg, pc: g.eng.db.Pkgs[sf.Pkg], subst: ns, dynSub: nd, depth: g.depth, bound: g.bound, mapKey: g.mapKey, dynFields: g.dynFields, varTypes: g.varTypes}
	r := sub.expr(sf.Body)
	if sub.failed != "" {
		return g.fail(sub.failed)
	}
	g.olds = append(g.olds, sub.olds...)
	return r
}

const dynReplayHelpers = `
type verifNil struct{}

func verifNum(x any) (*big.Int, bool) {
	switch v := x.(type) {
	case *big.Int:
		return v, true
	}
	rv := verifRV(x)
	switch rv.Kind() {
	case reflect.Int, reflect.Int8, reflect.Int16, reflect.Int32, reflect.Int64:
		return big.NewInt(rv.Int()), true
	case reflect.Uint, reflect.Uint8, reflect.Uint16, reflect.Uint32, reflect.Uint64, reflect.Uintptr:
		return new(big.Int).SetUint64(rv.Uint()), true
	}
	return nil, false
}
func verifLit(s string) any { n, _ := new(big.Int).SetString(s, 0); return n }
func verifBool(x any) bool { b, ok := x.(bool); if !ok { panic(fmt.Sprintf("verif: not a bool: %T", x)) }; return b }
func verifInt(x any) int { n, ok := verifNum(x); if !ok { panic(fmt.Sprintf("verif: not an integer: %T", x)) }; return int(n.Int64()) }
func verifNot(x any) any { return !verifBool(x) }
func verifAnd(a any, b func() any) any { if !verifBool(a) { return false }; return verifBool(b()) }
func verifOr(a any, b func() any) any { if verifBool(a) { return true }; return verifBool(b()) }
func verifIteD(c any, a, b func() any) any { if verifBool(c) { return a() }; return b() }
func verifIsNil(x any) bool {
	if x == nil { return true }
	if _, ok := x.(verifNil); ok { return true }
	rv := verifRV(x)
	switch rv.Kind() {
	case reflect.Ptr, reflect.Slice, reflect.Map, reflect.Func, reflect.Interface, reflect.Chan:
		return rv.IsNil()
	}
	return false
}
func verifEq(a, b any) (r bool) {
	if _, ok := a.(verifNil); ok { return verifIsNil(b) }
	if _, ok := b.(verifNil); ok { return verifIsNil(a) }
	if x, ok := verifNum(a); ok { if y, ok := verifNum(b); ok { return x.Cmp(y) == 0 } }
	defer func() { if recover() != nil { r = reflect.DeepEqual(a, b) } }()
	return a == b
}
func verifBin(op string, a, b any) any {
	switch op {
	case "==": return verifEq(a, b)
	case "!=": return !verifEq(a, b)
	}
	x, ok1 := verifNum(a); y, ok2 := verifNum(b)
	if !ok1 || !ok2 { panic(fmt.Sprintf("verif: %s on %T and %T", op, a, b)) }
	switch op {
	case "+": return new(big.Int).Add(x, y)
	case "-": return new(big.Int).Sub(x, y)
	case "*": return new(big.Int).Mul(x, y)
	case "/": return new(big.Int).Quo(x, y)
	case "%": return new(big.Int).Rem(x, y)
	case "<": return x.Cmp(y) < 0
	case "<=": return x.Cmp(y) <= 0
	case ">": return x.Cmp(y) > 0
	case ">=": return x.Cmp(y) >= 0
	case "&": return new(big.Int).And(x, y)
	case "|": return new(big.Int).Or(x, y)
	case "^": return new(big.Int).Xor(x, y)
	case "<<": return new(big.Int).Lsh(x, uint(y.Uint64()))
	case ">>": return new(big.Int).Rsh(x, uint(y.Uint64()))
	}
	panic("verif: operator " + op)
}
func verifMinMax(op string, a, b any) any {
	x, _ := verifNum(a); y, _ := verifNum(b)
	if (op == "min") == (x.Cmp(y) <= 0) { return x }
	return y
}
func verifConv(t string, a any) any {
	x, ok := verifNum(a)
	if !ok { if b, isB := a.(bool); isB { if b { return big.NewInt(1) }; return big.NewInt(0) }; panic(fmt.Sprintf("verif: conversion of %T", a)) }
	bits, signed := 64, true
	switch t {
	case "tomath": return x
	case "int8": bits = 8
	case "int16": bits = 16
	case "int32": bits = 32
	case "uint8", "byte": bits, signed = 8, false
	case "uint16": bits, signed = 16, false
	case "uint32": bits, signed = 32, false
	case "uint", "uint64": signed = false
	}
	m := new(big.Int).Lsh(big.NewInt(1), uint(bits))
	r := new(big.Int).Mod(x, m)
	if signed && r.Cmp(new(big.Int).Rsh(m, 1)) >= 0 { r.Sub(r, m) }
	return r
}
func verifQuant(kind string, lo, hi any, f func(int) any) any {
	l, h := verifInt(lo), verifInt(hi)
	if h-l > 1<<20 { panic("verif: quantifier range too large to execute") }
	for k := l; k < h; k++ {
		if verifBool(f(k)) != (kind == "forall") { return kind != "forall" }
	}
	return kind == "forall"
}
func verifTypeIs[T any](x any) bool { _, ok := x.(T); return ok }
func verifIsErr(e error, code uint64) bool {
	if e == nil { return false }
	return verifErrCode(e) == code
}
func verifTypeName(x any) string {
	rv := verifRV(x)
	if !rv.IsValid() { return "<nil>" }
	if rv.Kind() == reflect.Interface { if rv.IsNil() { return "<nil>" }; rv = rv.Elem() }
	return rv.Type().String()
}
func verifHolds(f func() any) (ok bool) {
	defer func() { if recover() != nil { ok = false } }()
	return verifBool(f())
}
func verifRV(x any) reflect.Value {
	if rv, ok := x.(reflect.Value); ok { return rv }
	return reflect.ValueOf(x)
}
func verifUnwrap(x any) reflect.Value {
	rv := verifRV(x)
	for rv.IsValid() && (rv.Kind() == reflect.Ptr || rv.Kind() == reflect.Interface) {
		if rv.IsNil() { panic("verif: nil dereference while evaluating the clause") }
		rv = rv.Elem()
	}
	return rv
}
func verifOut(rv reflect.Value) any {
	if rv.CanInterface() { return rv.Interface() }
	if rv.CanAddr() { return reflect.NewAt(rv.Type(), unsafe.Pointer(rv.UnsafeAddr())).Elem().Interface() }
	switch rv.Kind() {
	case reflect.Bool: return rv.Bool()
	case reflect.Int, reflect.Int8, reflect.Int16, reflect.Int32, reflect.Int64: return big.NewInt(rv.Int())
	case reflect.Uint, reflect.Uint8, reflect.Uint16, reflect.Uint32, reflect.Uint64, reflect.Uintptr: return new(big.Int).SetUint64(rv.Uint())
	case reflect.String: return rv.String()
	}
	return rv // kept as a reflect.Value for further selection
}
func verifGet(x any, name string) any {
	rv := verifUnwrap(x)
	if rv.Kind() != reflect.Struct { panic(fmt.Sprintf("verif: field %s of %s", name, rv.Kind())) }
	f := rv.FieldByName(name)
	if !f.IsValid() { panic("verif: no field " + name) }
	return verifOut(f)
}
func verifMapKey(m reflect.Value, k any) reflect.Value {
	kt := m.Type().Key()
	if rv := verifRV(k); rv.IsValid() && rv.Type() == kt { return rv }
	kv := reflect.New(kt).Elem()
	n, ok := verifNum(k)
	if !ok { panic(fmt.Sprintf("verif: map key %T", k)) }
	switch kv.Kind() {
	case reflect.Int, reflect.Int8, reflect.Int16, reflect.Int32, reflect.Int64: kv.SetInt(n.Int64())
	case reflect.Uint, reflect.Uint8, reflect.Uint16, reflect.Uint32, reflect.Uint64, reflect.Uintptr: kv.SetUint(n.Uint64())
	default: panic("verif: map key kind " + kv.Kind().String())
	}
	return kv
}
func verifIndex(x any, i any) any {
	rv := verifUnwrap(x)
	if rv.Kind() == reflect.Map {
		e := rv.MapIndex(verifMapKey(rv, i))
		if !e.IsValid() { e = reflect.Zero(rv.Type().Elem()) }
		c := reflect.New(e.Type()).Elem(); c.Set(e)
		return verifOut(c)
	}
	return verifOut(rv.Index(verifInt(i)))
}
func verifHas(m any, k any) any {
	rv := verifRV(m)
	if rv.Kind() != reflect.Map || rv.IsNil() { return false }
	return rv.MapIndex(verifMapKey(rv, k)).IsValid()
}
func verifQuantMap(m any, f func(any) any) any {
	rv := verifRV(m)
	if rv.Kind() != reflect.Map { panic("verif: quantifier over a non-map") }
	for _, k := range rv.MapKeys() {
		if !verifBool(f(k.Interface())) { return false }
	}
	return true
}
func verifDeref(x any) any { return verifOut(verifRV(x).Elem()) }
func verifLenCap(op string, x any) any {
	rv := verifRV(x)
	if op == "cap" { return big.NewInt(int64(rv.Cap())) }
	return big.NewInt(int64(rv.Len()))
}
`
