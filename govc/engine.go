package main

import (
	"regexp"
	"fmt"
	"go/token"
	"go/types"
	"os"
	"sort"
	"strings"
	"sync"

	"golang.org/x/tools/go/packages"
	"golang.org/x/tools/go/ssa"
	"golang.org/x/tools/go/ssa/ssautil"
)

type Engine struct {
	privateAllocs sync.Map // *ssa.Alloc -> bool (allocIsPrivate)
	errVarIDs     map[*ssa.Global]int
	repo    string
	modPath string
	fset    *token.FileSet
	prog    *ssa.Program
	pkgs    []*packages.Package
	allPkgs map[string]*packages.Package
	db      *ContractDB

	mu        sync.Mutex
	typeIDs   map[string]int
	typeList  []types.Type
	fnIDs     map[*ssa.Function]int
	loopInfos map[*ssa.Function]*funcInfo
	funcIndex map[string]map[string]*ssa.Function
	globals   map[*types.Var]*ssa.Global
}

func newEngine(repo, contractsDir string) (*Engine, error) {
	e := &Engine{repo: repo, modPath: "github.com/refraction-networking/uquic", typeIDs: map[string]int{}, fnIDs: map[*ssa.Function]int{},
		loopInfos: map[*ssa.Function]*funcInfo{}, funcIndex: map[string]map[string]*ssa.Function{}, allPkgs: map[string]*packages.Package{}, globals: map[*types.Var]*ssa.Global{}}
	db, err := loadContracts(contractsDir, e.modPath)
	if err != nil {
		return nil, err
	}
	e.db = db
	return e, nil
}

// load loads the given package import paths (within the module) and builds SSA.
func (e *Engine) load(pkgPaths []string) error {
	var pats []string
	for _, p := range pkgPaths {
		rel := strings.TrimPrefix(strings.TrimPrefix(p, e.modPath), "/")
		if rel == "" {
			pats = append(pats, ".")
		} else {
			pats = append(pats, "./"+rel)
		}
	}
	cfg := &packages.Config{Mode: packages.LoadAllSyntax, Dir: e.repo, Env: loaderEnv()}
	pkgs, err := packages.Load(cfg, pats...)
	if err != nil {
		return err
	}
	for _, p := range pkgs {
		if len(p.Errors) > 0 {
			return fmt.Errorf("package %s: %v", p.PkgPath, p.Errors[0])
		}
	}
	e.pkgs = pkgs
	packages.Visit(pkgs, nil, func(p *packages.Package) { e.allPkgs[p.PkgPath] = p })
	prog, _ := ssautil.AllPackages(pkgs, ssa.GlobalDebug)
	prog.Build()
	e.prog = prog
	e.fset = prog.Fset
	for path, p := range e.allPkgs {
		if !strings.HasPrefix(path, e.modPath) || p.TypesInfo == nil {
			continue
		}
		idx := e.funcIndex[path]
		if idx == nil {
			idx = map[string]*ssa.Function{}
			e.funcIndex[path] = idx
		}
		for _, obj := range p.TypesInfo.Defs {
			tf, ok := obj.(*types.Func)
			if !ok {
				continue
			}
			fn := prog.FuncValue(tf)
			if fn == nil || fn.Pkg == nil {
				continue
			}
			idx[fn.RelString(fn.Pkg.Pkg)] = fn
			// function literals: addressable as Parent$N
			var addAnon func(f *ssa.Function)
			addAnon = func(f *ssa.Function) {
				for _, a := range f.AnonFuncs {
					idx[a.RelString(fn.Pkg.Pkg)] = a
					addAnon(a)
				}
			}
			addAnon(fn)
		}
	}
	// function literals bound to package-level variables (`var newConnection = func(...)`):
	// addressable as <var>$var, independent of their position in the package initialiser
	for _, p := range prog.AllPackages() {
		if p.Pkg == nil || !strings.HasPrefix(p.Pkg.Path(), e.modPath) {
			continue
		}
		initFn := p.Func("init")
		if initFn == nil {
			continue
		}
		idx := e.funcIndex[p.Pkg.Path()]
		if idx == nil {
			continue
		}
		for _, b := range initFn.Blocks {
			for _, in := range b.Instrs {
				st, ok := in.(*ssa.Store)
				if !ok {
					continue
				}
				g, ok := st.Addr.(*ssa.Global)
				if !ok {
					continue
				}
				if fn, ok := st.Val.(*ssa.Function); ok && fn.Parent() == initFn {
					idx[g.Name()+"$var"] = fn
					fnAliases[fn] = g.Name() + "$var"
					var addAnon func(f *ssa.Function, prefix string)
					addAnon = func(f *ssa.Function, prefix string) {
						for i, a := range f.AnonFuncs {
							k := fmt.Sprintf("%s$%d", prefix, i+1)
							idx[k] = a
							fnAliases[a] = k
							addAnon(a, k)
						}
					}
					addAnon(fn, g.Name()+"$var")
				}
			}
		}
	}
	for _, p := range prog.AllPackages() {
		for _, m := range p.Members {
			if g, ok := m.(*ssa.Global); ok {
				if v, ok := g.Object().(*types.Var); ok {
					e.globals[v] = g
				}
			}
		}
	}
	return nil
}

func (e *Engine) globalFor(v *types.Var) *ssa.Global { return e.globals[v] }

// errVarID: a small number identifying a package-level error variable (stable within one run).
func (e *Engine) errVarID(g *ssa.Global) int {
	e.mu.Lock()
	defer e.mu.Unlock()
	if e.errVarIDs == nil {
		e.errVarIDs = map[*ssa.Global]int{}
	}
	if id, ok := e.errVarIDs[g]; ok {
		return id
	}
	id := len(e.errVarIDs) + 1
	e.errVarIDs[g] = id
	return id
}

func (e *Engine) typesPkg(path string) *types.Package {
	if p, ok := e.allPkgs[path]; ok {
		return p.Types
	}
	return nil
}

func (e *Engine) pkgByName(name string) *types.Package {
	var best *types.Package
	for path, p := range e.allPkgs {
		if p.Types != nil && p.Types.Name() == name {
			if strings.HasPrefix(path, e.modPath) {
				return p.Types
			}
			if best == nil || len(path) < len(best.Path()) {
				best = p.Types
			}
		}
	}
	return best
}

func (e *Engine) typeID(t types.Type) int {
	e.mu.Lock()
	defer e.mu.Unlock()
	k := types.TypeString(types.Unalias(t), nil)
	if id, ok := e.typeIDs[k]; ok {
		return id
	}
	id := len(e.typeIDs) + 1
	e.typeIDs[k] = id
	for len(e.typeList) <= id {
		e.typeList = append(e.typeList, nil)
	}
	e.typeList[id] = t
	return id
}

func (e *Engine) typeIDByName(name string) int {
	e.mu.Lock()
	defer e.mu.Unlock()
	if id, ok := e.typeIDs[name]; ok {
		return id
	}
	id := len(e.typeIDs) + 1
	e.typeIDs[name] = id
	for len(e.typeList) <= id {
		e.typeList = append(e.typeList, nil)
	}
	return id
}

func (e *Engine) typeByID(id int) types.Type {
	e.mu.Lock()
	defer e.mu.Unlock()
	if id > 0 && id < len(e.typeList) {
		return e.typeList[id]
	}
	return nil
}

func (e *Engine) fnID(f *ssa.Function) int {
	e.mu.Lock()
	defer e.mu.Unlock()
	if id, ok := e.fnIDs[f]; ok {
		return id
	}
	id := len(e.fnIDs) + 1
	e.fnIDs[f] = id
	return id
}

func (e *Engine) loopInfo(fn *ssa.Function) *funcInfo {
	e.mu.Lock()
	defer e.mu.Unlock()
	if fi, ok := e.loopInfos[fn]; ok {
		return fi
	}
	fi := analyzeLoops(fn)
	e.loopInfos[fn] = fi
	return fi
}

func (e *Engine) contractFor(fn *ssa.Function) *FuncContract {
	f := fn
	if o := fn.Origin(); o != nil {
		f = o
	}
	if f.Pkg == nil {
		return nil
	}
	pc := e.db.Pkgs[f.Pkg.Pkg.Path()]
	if pc == nil {
		return nil
	}
	if a, ok := fnAliases[f]; ok {
		return pc.Funcs[a]
	}
	return pc.Funcs[f.RelString(f.Pkg.Pkg)]
}

var afterCallRe = regexp.MustCompile(`aftercall\("([^"]+)"`)

// fnAliases names function literals bound to package-level variables after the variable
// (filled once while loading, read-only afterwards).
var fnAliases = map[*ssa.Function]string{}

func (e *Engine) ifaceContract(it types.Type, mname string) *FuncContract {
	key := "(" + typeName(it) + ")." + mname
	return e.db.Ifaces[key]
}

var effectFreeIfaces = map[string]bool{
	"utils.Logger": true, "qlogwriter.Recorder": true, "qlogwriter.Trace": true, "qlogwriter.Event": true,
	"fmt.Stringer": true,
}

func (e *Engine) effectFreeIface(name string) bool { return effectFreeIfaces[name] }

func (e *Engine) transportErrorPtr() *types.Pointer {
	p := e.typesPkg(e.modPath + "/internal/qerr")
	if p == nil {
		unsup("qerr package not loaded")
	}
	obj := p.Scope().Lookup("TransportError")
	return types.NewPointer(obj.Type())
}

func (e *Engine) ghostField(t types.Type, name string) *GhostField {
	n := namedOf(t)
	if n == nil || n.Obj().Pkg() == nil {
		return nil
	}
	pc := e.db.Pkgs[n.Obj().Pkg().Path()]
	if pc == nil {
		return nil
	}
	for _, g := range pc.Ghosts {
		if g.Owner == n.Obj().Name() && g.Name == name {
			return g
		}
	}
	return nil
}

func (e *Engine) ghostFieldsOf(t types.Type) []*GhostField {
	n := namedOf(t)
	if n == nil || n.Obj().Pkg() == nil {
		return nil
	}
	pc := e.db.Pkgs[n.Obj().Pkg().Path()]
	if pc == nil {
		return nil
	}
	var out []*GhostField
	for _, g := range pc.Ghosts {
		if g.Owner == n.Obj().Name() {
			out = append(out, g)
		}
	}
	return out
}

// ---------- per-function driver ----------

type FuncResult struct {
	Name       string
	Pkg        string
	Contract   *FuncContract
	Obls       []*Obligation
	Decls      []string
	BV         bool
	Undecided  []string
	Notes      []string
	Assumptions []string
	Paths      int
	Trivial    []string // names of obligations whose goal folded to true during generation
}

func (e *Engine) verifyFunc(pkgPath string, fc *FuncContract) *FuncResult {
	res := &FuncResult{Name: fc.Key, Pkg: pkgPath, Contract: fc}
	idx := e.funcIndex[pkgPath]
	// "F#impl": a second contract for F that is only CHECKED against F's body and never used at call sites (callers keep
	// seeing F's main contract, e.g. an abstract predicate; the #impl contract pins down how F computes it)
	lookup := fc.Key
	if i := strings.Index(lookup, "#"); i >= 0 {
		lookup = lookup[:i]
	}
	fn := idx[lookup]
	if fn == nil {
		res.Undecided = append(res.Undecided, "function not found in package (renamed or deleted?)")
		return res
	}
	if fn.Blocks == nil {
		res.Undecided = append(res.Undecided, "function has no body")
		return res
	}
	c := &Ctx{eng: e, ar: &arith{bv: fc.Arith == "bv"}, fn: fn, fc: fc, pc: e.db.Pkgs[pkgPath], name: shortPkg(pkgPath) + "." + fc.Key,
		heapSorts: map[string]string{}, declSet: map[string]bool{}, siteCount: map[string]int{}, assumptions: map[string]bool{}, strLits: map[string]string{},
		siteIDs: map[string]string{}, notes: map[string]bool{}, maxPaths: 2000, checkNil: fc.CheckNil}
	if fc.MaxPaths > 0 {
		c.maxPaths = fc.MaxPaths
	}
	c.afterCallNames = map[string]bool{}
	scan := func(t string) {
		for _, m := range afterCallRe.FindAllStringSubmatch(t, -1) {
			c.afterCallNames[m[1]] = true
		}
	}
	for _, cl := range fc.Ensures {
		scan(cl.Text)
	}
	for _, l := range fc.Lets {
		scan(l.Text)
	}
	func() {
		defer func() {
			if r := recover(); r != nil {
				if se, ok := r.(specError); ok {
					c.undecide("contract error: " + se.msg)
					return
				}
				if u, ok := r.(unsupported); ok {
					c.undecide("unsupported: " + u.msg)
					return
				}
				panic(r)
			}
		}()
		c.verify()
	}()
	// entry-state locations for replay: computed once, after execution has declared every heap the VCs read
	func() {
		defer func() { recover() }()
		fv := c.entryFieldVars(nil)
		hints := c.modelHints(fv)
		withKeys := map[string][]fieldVar{}
		for _, o := range c.obls {
			o.Fields = fv
			o.Hints = hints
			if len(o.Skolems) > 0 && len(o.Skolems) <= 3 {
				k := strings.Join(o.Skolems, " ")
				if _, ok := withKeys[k]; !ok {
					withKeys[k] = c.entryFieldVars(o.Skolems)
				}
				o.Fields = withKeys[k]
			}
		}
	}()
	res.Obls = c.obls
	res.Decls = c.decls
	res.BV = c.ar.bv
	res.Undecided = append(res.Undecided, c.undecided...)
	res.Paths = c.npaths
	for n := range c.trivialNames {
		res.Trivial = append(res.Trivial, n)
	}
	for n := range c.notes {
		res.Notes = append(res.Notes, n)
	}
	sort.Strings(res.Notes)
	res.Assumptions = sortedKeys(c.assumptions)
	return res
}

func shortPkg(p string) string {
	if i := strings.LastIndex(p, "/"); i >= 0 {
		return p[i+1:]
	}
	return p
}

// preamble returns the fixed SMT prelude for the arithmetic mode.
func preamble(bv bool) string {
	idx := "Int"
	if bv {
		idx = "(_ BitVec 64)"
	}
	var sb strings.Builder
	sb.WriteString("(set-logic ALL)\n")
	sb.WriteString(fmt.Sprintf("(declare-datatypes ((Ref 0)) (((mkobj (oid Int)) (mksub (sparent Ref) (sfld Int)) (mkelem (earr Ref) (eidx %s)))))\n", idx))
	sb.WriteString("(define-fun rnil () Ref (mkobj 0))\n")
	// rootid(r): identity of the allocation r lives in (recursive over the reference structure; exact at every depth).
	sb.WriteString("(define-fun-rec rootid ((r Ref)) Int (ite ((_ is mkobj) r) (oid r) (ite ((_ is mksub) r) (rootid (sparent r)) (rootid (earr r)))))\n")
	sb.WriteString("(declare-fun dyntype (Ref) Int)\n")
	if bv {
		sb.WriteString("(declare-sort Str 0)\n(declare-fun strlen (Str) (_ BitVec 64))\n")
		sb.WriteString("(assert (forall ((s Str)) (! (bvule (strlen s) (_ bv1099511627776 64)) :pattern ((strlen s)))))\n")
	} else {
		sb.WriteString("(declare-sort Str 0)\n(declare-fun strlen (Str) Int)\n")
		sb.WriteString("(assert (forall ((s Str)) (! (>= (strlen s) 0) :pattern ((strlen s)))))\n")
	}
	sb.WriteString("(declare-fun strid (Str) Int)\n(declare-fun strofid (Int) Str)\n(assert (forall ((s Str)) (! (= (strofid (strid s)) s) :pattern ((strid s)))))\n")
	sb.WriteString("(declare-fun realid (Real) Int)\n(declare-fun fmul (Real Real) Real)\n(declare-fun fdiv (Real Real) Real)\n")
	if !bv {
		for _, w := range []int{8, 16, 32, 64} {
			for _, op := range []string{"bitand", "bitor", "bitxor", "bitandnot"} {
				sb.WriteString(fmt.Sprintf("(declare-fun %s%d (Int Int) Int)\n", op, w))
			}
		}
	}
	if bv {
		sb.WriteString("(declare-fun sidx ((_ BitVec 64) (_ BitVec 64)) (_ BitVec 64))\n(assert (forall ((o (_ BitVec 64)) (k (_ BitVec 64))) (! (= (sidx o k) (bvadd o k)) :pattern ((sidx o k)))))\n")
	} else {
		sb.WriteString("(declare-fun sidx (Int Int) Int)\n(assert (forall ((o Int) (k Int)) (! (= (sidx o k) (+ o k)) :pattern ((sidx o k)))))\n")
	}
	sb.WriteString("(declare-const alloc0 Int)\n(assert (> alloc0 0))\n")
	return sb.String()
}

// devirt resolves an interface method call to a concrete method when a devirt directive exists.
func (e *Engine) devirt(it types.Type, mname string) (*ssa.Function, types.Type) {
	n := namedOf(it)
	if n == nil || n.Obj().Pkg() == nil {
		return nil, nil
	}
	for _, pc := range e.db.Pkgs {
		ct, ok := pc.Devirt[typeName(it)]
		if !ok {
			continue
		}
		tp := e.typesPkg(pc.Pkg)
		if tp == nil {
			return nil, nil
		}
		name := strings.TrimPrefix(ct, "*")
		obj := tp.Scope().Lookup(name)
		if obj == nil {
			return nil, nil
		}
		var recvT types.Type = obj.Type()
		if strings.HasPrefix(ct, "*") {
			recvT = types.NewPointer(recvT)
		}
		// find the method (possibly promoted through embedding)
		sel := e.prog.MethodSets.MethodSet(recvT).Lookup(tp, mname)
		if sel == nil {
			return nil, nil
		}
		fn := e.prog.MethodValue(sel)
		return fn, recvT
	}
	return nil, nil
}

// loaderEnv: environment for the `go list` driver run inside the repository: it must be allowed to switch to the
// repository's own (cached) toolchain, which fails when GOTOOLCHAIN=local or GOSUMDB=off is inherited.
func loaderEnv() []string {
	var env []string
	for _, kv := range os.Environ() {
		if strings.HasPrefix(kv, "GOTOOLCHAIN=") || strings.HasPrefix(kv, "GOSUMDB=") || strings.HasPrefix(kv, "GOFLAGS=") || strings.HasPrefix(kv, "GOPROXY=") {
			continue
		}
		env = append(env, kv)
	}
	return append(env, "GOTOOLCHAIN=auto", "GOFLAGS=-mod=mod", "GOPROXY=off")
}

func (e *Engine) typeListSnapshot() []types.Type {
	e.mu.Lock()
	defer e.mu.Unlock()
	return append([]types.Type(nil), e.typeList...)
}
