package main

func replayOnRealCode(eng *Engine, rf *ReplayFile, st *oblStatus, fr *FuncResult) string {
	return "not-attempted"
}
