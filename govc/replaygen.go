package main

// Replay of solver counterexamples on the real code.
//
// For a failed obligation with a model, an in-package Go test is generated: the receiver/arguments are built from the
// model (scalar fields of pointer-to-struct parameters, one level of pointer/interface indirection), the function is
// called, and the violated clause — compiled from the contract expression to Go — is evaluated. The test is injected
// with `go test -overlay` (nothing is written into the repository). "confirmed" means the real code exhibited the
// violation; anything else ends in no-failing-input-found.

import (
	"encoding/json"
	"fmt"
	"go/ast"
	"go/token"
	"go/types"
	"math/big"
	"os"
	"os/exec"
	"path/filepath"
	"regexp"
	"sort"
	"strings"
	"time"

	"golang.org/x/tools/go/ssa"
)

// fieldVar: one scalar location reachable from a parameter, with the SMT term of its entry value.
type fieldVar struct {
	Path string     // Go selector path, e.g. "c.baseFlowController.bytesSent"; "#len(c.x)" etc. for slices
	Term string     // SMT term (entry state)
	Ty   types.Type // Go type of the location
	Kind string     // scalar | ptr | iface-tag | slice-len | string | strlit | map | chan
	// further terms: slice-len: backing array, offset, capacity; string: length; iface-tag: object ref, integer payload
	Extra []string
	Lit   string // strlit: the literal's text
}

func firstMethod(it *types.Interface) string {
	if it.NumMethods() > 0 {
		return it.Method(0).Name()
	}
	return ""
}

func relQual(fn *ssa.Function) types.Qualifier {
	return func(p *types.Package) string {
		if fn != nil && fn.Pkg != nil && p == fn.Pkg.Pkg {
			return ""
		}
		return p.Name()
	}
}

// ---------- model values ----------

func parseModelInt(v string) (*big.Int, bool) {
	v = strings.TrimSpace(v)
	if strings.HasPrefix(v, "#x") {
		n, ok := new(big.Int).SetString(v[2:], 16)
		return n, ok
	}
	if strings.HasPrefix(v, "#b") {
		n, ok := new(big.Int).SetString(v[2:], 2)
		return n, ok
	}
	if strings.HasPrefix(v, "(_ bv") {
		f := strings.Fields(v[5:])
		n, ok := new(big.Int).SetString(f[0], 10)
		return n, ok
	}
	return isNumeral(strings.Join(strings.Fields(v), " "))
}

func goIntLit(n *big.Int, t types.Type) string {
	ii, ok := isIntType(t)
	if ok && ii.signed && n.Sign() >= 0 && n.Cmp(pow2(ii.bits-1)) >= 0 {
		n = new(big.Int).Sub(n, pow2(ii.bits)) // bit-vector value of a signed type
	}
	return n.String()
}

func isNilRefModel(v string) bool {
	v = strings.Join(strings.Fields(v), " ")
	return v == "(mkobj 0)" || v == "rnil"
}

// ---------- contract expression -> Go ----------

type goCompiler struct {
	eng    *Engine
	pkg    *types.Package
	pc     *PkgContracts
	olds   []string // Go expressions captured before the call
	subst  map[string]string
	lets   []*LetDef
	failed string
	depth  int
}

func (g *goCompiler) fail(msg string) string {
	if g.failed == "" {
		g.failed = msg
	}
	return "false"
}

func (g *goCompiler) expr(x ast.Expr) string {
	switch v := x.(type) {
	case *ast.ParenExpr:
		return "(" + g.expr(v.X) + ")"
	case *ast.BasicLit:
		return v.Value
	case *ast.Ident:
		if s, ok := g.subst[v.Name]; ok {
			return s
		}
		for _, l := range g.lets {
			if l.Name == v.Name {
				g.depth++
				if g.depth > 30 {
					return g.fail("let recursion")
				}
				r := "(" + g.expr(l.Expr) + ")"
				g.depth--
				return r
			}
		}
		if g.pc != nil {
			if ce, ok := g.pc.Consts[v.Name]; ok {
				return "(" + g.expr(ce) + ")"
			}
		}
		return v.Name
	case *ast.SelectorExpr:
		return g.expr(v.X) + "." + v.Sel.Name
	case *ast.StarExpr:
		return "*" + g.expr(v.X)
	case *ast.UnaryExpr:
		return v.Op.String() + g.expr(v.X)
	case *ast.BinaryExpr:
		return "(" + g.expr(v.X) + " " + v.Op.String() + " " + g.expr(v.Y) + ")"
	case *ast.IndexExpr:
		return g.expr(v.X) + "[" + g.expr(v.Index) + "]"
	case *ast.SliceExpr:
		lo, hi := "", ""
		if v.Low != nil {
			lo = g.expr(v.Low)
		}
		if v.High != nil {
			hi = g.expr(v.High)
		}
		return g.expr(v.X) + "[" + lo + ":" + hi + "]"
	case *ast.CallExpr:
		return g.call(v)
	}
	return g.fail(fmt.Sprintf("unsupported expression %T", x))
}

func (g *goCompiler) call(v *ast.CallExpr) string {
	arg := func(i int) string { return g.expr(v.Args[i]) }
	if id, ok := v.Fun.(*ast.Ident); ok {
		switch id.Name {
		case "old":
			// capture before the call
			sub := &goCompiler{eng: g.eng, pkg: g.pkg, pc: g.pc, subst: g.subst, lets: g.lets}
			e := sub.expr(v.Args[0])
			if sub.failed != "" {
				return g.fail(sub.failed)
			}
			g.olds = append(g.olds, e)
			return fmt.Sprintf("old%d", len(g.olds)-1)
		case "implies":
			return "(!(" + arg(0) + ") || (" + arg(1) + "))"
		case "iff":
			return "((" + arg(0) + ") == (" + arg(1) + "))"
		case "ite":
			return "verifIte(" + arg(0) + ", func() any { return " + arg(1) + " }, func() any { return " + arg(2) + " })"
		case "len", "cap", "min", "max":
			var as []string
			for i := range v.Args {
				as = append(as, arg(i))
			}
			return id.Name + "(" + strings.Join(as, ", ") + ")"
		case "iserr":
			return "verifIsErr(" + arg(0) + ", uint64(" + arg(1) + "))"
		case "dyn":
			return arg(0) + ".(" + g.expr(v.Args[1]) + ")"
		case "typeis":
			return "verifTypeIs[" + g.expr(v.Args[1]) + "](" + arg(0) + ")"
		case "forall":
			if len(v.Args) >= 4 {
				k := v.Args[0].(*ast.Ident).Name
				return fmt.Sprintf("verifForall(int(%s), int(%s), func(%s int) bool { return %s })", arg(1), arg(2), k, arg(3))
			}
		case "isfresh", "samearray", "alias", "lastresult", "ufi", "uf", "ufb", "called", "in", "has", "forall2", "exists":
			return g.fail("clause uses " + id.Name + " (not executable)")
		}
		// spec function
		if sf := findSpecIn(g.eng, g.pc, id.Name, ""); sf != nil {
			return g.inlineSpec(sf, "", v.Args)
		}
		// conversion
		var as []string
		for i := range v.Args {
			as = append(as, arg(i))
		}
		return id.Name + "(" + strings.Join(as, ", ") + ")"
	}
	if sel, ok := v.Fun.(*ast.SelectorExpr); ok {
		// pkg.spec(...) / pkg.Type(x) / recv.pred(...)
		if id, ok := sel.X.(*ast.Ident); ok {
			if _, isSub := g.subst[id.Name]; !isSub {
				for _, pc := range g.eng.db.Pkgs {
					if shortPkg(pc.Pkg) == id.Name {
						if sf, ok := pc.Specs[sel.Sel.Name]; ok {
							return g.inlineSpec(sf, "", v.Args)
						}
					}
				}
			}
		}
		// receiver predicate: search by method name over all receiver preds
		for _, pc := range g.eng.db.Pkgs {
			for key, sf := range pc.Specs {
				if sf.RecvType != "" && strings.HasSuffix(key, "."+sel.Sel.Name) && sf.Name == sel.Sel.Name {
					return g.inlineSpec(sf, g.expr(sel.X), v.Args)
				}
			}
		}
		var as []string
		for i := range v.Args {
			as = append(as, arg(i))
		}
		return g.expr(sel) + "(" + strings.Join(as, ", ") + ")"
	}
	return g.fail("unsupported call")
}

func findSpecIn(eng *Engine, pc *PkgContracts, name, recv string) *SpecFunc {
	key := name
	if recv != "" {
		key = recv + "." + name
	}
	if pc != nil {
		if sf, ok := pc.Specs[key]; ok {
			return sf
		}
	}
	for _, p := range eng.db.Pkgs {
		if sf, ok := p.Specs[key]; ok {
			return sf
		}
	}
	return nil
}

func (g *goCompiler) inlineSpec(sf *SpecFunc, recv string, args []ast.Expr) string {
	g.depth++
	defer func() { g.depth-- }()
	if g.depth > 30 {
		return g.fail("spec recursion")
	}
	ns := map[string]string{}
	for k, v := range g.subst {
		ns[k] = v
	}
	for i, p := range sf.Params {
		if i < len(args) {
			ns[p] = "(" + g.expr(args[i]) + ")"
		}
	}
	if recv != "" {
		ns[sf.RecvName] = "(" + recv + ")"
	}
	sub := &goCompiler{eng: g.eng, pkg: g.pkg, pc: g.eng.db.Pkgs[sf.Pkg], subst: ns, depth: g.depth}
	r := "(" + sub.expr(sf.Body) + ")"
	if sub.failed != "" {
		return g.fail(sub.failed)
	}
	g.olds = append(g.olds, sub.olds...)
	return r
}

// ---------- test generation ----------

const replayHelpers = `
func verifIte(c bool, a, b func() any) any { if c { return a() }; return b() }
func verifForall(lo, hi int, f func(int) bool) bool { for k := lo; k < hi; k++ { if !f(k) { return false } }; return true }
func verifTypeIs[T any](x any) bool { _, ok := x.(T); return ok }
func verifIsErr(e error, code uint64) bool {
	type coder interface{ Is(error) bool }
	if e == nil { return false }
	return verifErrCode(e) == code
}
`

// replayOnRealCode tries the failing instances (paths) of the obligation one after the other until the real code
// exhibits the violation.
func replayOnRealCode(eng *Engine, rf *ReplayFile, st *oblStatus, fr *FuncResult) string {
	insts := append([]*Obligation{st.FailInst}, st.MoreInst...)
	ress := append([]*SolveResult{st.FailRes}, st.MoreRes...)
	status := "not-attempted"
	attempts := 0
	for i := range insts {
		if insts[i] == nil || ress[i] == nil || ress[i].Model == nil {
			continue
		}
		attempts++
		r := replayInstance(eng, rf, insts[i], ress[i].Model, ress[i].Candidate, fr)
		if r == "confirmed" {
			rf.Replay["attempts"] = fmt.Sprint(attempts)
			rf.Replay["path"] = fmt.Sprint(insts[i].PathID)
			if i > 0 {
				// the inputs recorded in the file are those of the instance that reproduced
				rf.Inputs = map[string]string{}
				for _, v := range insts[i].Vars {
					if val, ok := ress[i].Model[v.Term]; ok {
						rf.Inputs[v.Name] = val
					}
				}
				for _, v := range insts[i].Fields {
					if val, ok := ress[i].Model[v.Term]; ok && v.Term != "" {
						rf.Inputs[v.Path] = val
					}
				}
			}
			return r
		}
		if status == "not-attempted" || r == "not-reproduced" {
			status = r
		}
		if r == "not-attempted" {
			break // the clause or the function is outside what the replay can execute: other paths will not help
		}
	}
	rf.Replay["attempts"] = fmt.Sprint(attempts)
	return status
}

func replayInstance(eng *Engine, rf *ReplayFile, o *Obligation, model map[string]string, candidate bool, fr *FuncResult) string {
	dyn := map[string]bool{}
	for try := 0; ; try++ {
		st := replayInstance1(eng, rf, o, model, candidate, fr, dyn)
		// the clause is compiled without type information: a selector that turns out to name another package's
		// unexported field is recompiled to a reflective read
		more := false
		for _, m := range regexp.MustCompile(`cannot refer to unexported field (\w+)`).FindAllStringSubmatch(rf.Replay["go_test_output"], -1) {
			if !dyn[m[1]] {
				dyn[m[1]] = true
				more = true
			}
		}
		if !more || try >= 3 {
			return st
		}
	}
}

func replayInstance1(eng *Engine, rf *ReplayFile, o *Obligation, model map[string]string, candidate bool, fr *FuncResult, dynFields map[string]bool) string {
	if o == nil || model == nil {
		return "not-attempted"
	}
	kind := o.Kind
	if kind == "pre" && strings.Contains(o.Label, ".nopanic") {
		kind = "safe:callee-panic" // "the callee does not panic here": replayed like any other absence-of-panic obligation
	}
	if kind != "post" && !strings.HasPrefix(kind, "safe:") {
		rf.Replay["reason"] = "replay is generated for post: and safe: obligations only"
		return "not-attempted"
	}
	pkgPath := fr.Pkg
	fn := eng.funcIndex[pkgPath][fr.Contract.Key]
	if fn == nil {
		return "not-attempted"
	}
	if fn.Parent() != nil {
		rf.Replay["reason"] = "closure body: only callable through its enclosing function, whose entry state the model does not describe"
		return "not-attempted"
	}
	qual := relQual(fn)
	_ = qual
	var sb strings.Builder
	sb.WriteString("package " + fn.Pkg.Pkg.Name() + "\n\nimport (\n\t\"testing\"\n\t\"fmt\"\n\t\"math/big\"\n\t\"reflect\"\n\t\"strconv\"\n\t\"strings\"\n\t\"unsafe\"\n")
	imports := map[string]bool{}
	body := &strings.Builder{}
	build, argNames, cannot := buildReplayInputs(eng, fn, o, model, imports)
	if cannot != "" {
		rf.Replay["reason"] = cannot
		return "not-attempted"
	}
	body.WriteString(build)
	// clause
	var check string
	g := &dynCompiler{eng: eng, pkg: fn.Pkg.Pkg, pc: eng.db.Pkgs[pkgPath], subst: map[string]string{}, dynSub: map[string]bool{}, lets: fr.Contract.Lets, dynFields: dynFields}
	nres := fn.Signature.Results().Len()
	var resNames []string
	for i := 0; i < nres; i++ {
		resNames = append(resNames, fmt.Sprintf("r%d", i))
		g.subst[fmt.Sprintf("result%d", i)] = fmt.Sprintf("r%d", i)
		if n := fn.Signature.Results().At(i).Name(); n != "" && n != "_" {
			g.subst[n] = fmt.Sprintf("r%d", i)
		}
	}
	if nres == 1 {
		g.subst["result"] = "r0"
	}
	if fn.Signature.Recv() != nil && fr.Contract.RecvName != "" {
		g.subst[fr.Contract.RecvName] = argNames[0]
	}
	g.varTypes = map[string]types.Type{}
	inst := instantiatedParamTypes(eng, fn)
	for i, p := range fn.Params {
		pt := p.Type()
		if hasTypeParam(pt) && inst != nil && i < len(inst) {
			pt = inst[i]
		}
		g.varTypes[p.Name()] = pt
		if i == 0 && fn.Signature.Recv() != nil && fr.Contract.RecvName != "" {
			g.varTypes[fr.Contract.RecvName] = pt
		}
	}
	for i := 0; i < nres; i++ {
		rt := fn.Signature.Results().At(i).Type()
		g.varTypes[fmt.Sprintf("result%d", i)] = rt
		if n := fn.Signature.Results().At(i).Name(); n != "" && n != "_" {
			g.varTypes[n] = rt
		}
		if nres == 1 {
			g.varTypes["result"] = rt
		}
	}
	for i, p := range fn.Params {
		if p.Name() != argNames[i] {
			g.subst[p.Name()] = argNames[i]
		}
	}
	if kind == "post" {
		var cl *Clause
		for i, e := range fr.Contract.Ensures {
			lb := e.Label
			if lb == "" {
				lb = fmt.Sprintf("%d", i)
			}
			if lb == o.Label {
				cl = e
			}
		}
		if cl == nil {
			return "not-attempted"
		}
		check = "verifBool(" + g.expr(cl.Expr) + ")"
		if g.failed != "" {
			rf.Replay["reason"] = g.failed
			return "not-attempted"
		}
	}
	// the constructed input must satisfy the function's precondition (objects the model describes only in part, and
	// candidate models in particular, may not); a permitted panic (panics when) is not a violation either
	for i, rq := range fr.Contract.Requires {
		pg := &dynCompiler{eng: eng, pkg: fn.Pkg.Pkg, pc: eng.db.Pkgs[pkgPath], subst: g.subst, dynSub: g.dynSub, lets: fr.Contract.Lets, dynFields: dynFields, varTypes: g.varTypes}
		e := pg.expr(rq.Expr)
		if pg.failed != "" || len(pg.olds) > 0 {
			if candidate {
				rf.Replay["reason"] = "candidate model, and precondition #" + fmt.Sprint(i) + " cannot be evaluated on the constructed input (" + pg.failed + ")"
				return "not-attempted"
			}
			continue
		}
		fmt.Fprintf(body, "\tif !verifHolds(func() any { return %s }) {\n\t\tverifT.Fatalf(\"VERIF-REPLAY-PRECONDITION: requires #%d does not hold on the constructed input\")\n\t}\n", e, i)
	}
	if strings.HasPrefix(kind, "safe:") {
		for i, pw := range fr.Contract.PanicsWhen {
			pg := &dynCompiler{eng: eng, pkg: fn.Pkg.Pkg, pc: eng.db.Pkgs[pkgPath], subst: g.subst, dynSub: g.dynSub, lets: fr.Contract.Lets, dynFields: dynFields, varTypes: g.varTypes}
			e := pg.expr(pw.Expr)
			if pg.failed != "" || len(pg.olds) > 0 {
				rf.Replay["reason"] = "the function may panic by contract and that condition cannot be evaluated (" + pg.failed + ")"
				return "not-attempted"
			}
			fmt.Fprintf(body, "\tif verifHolds(func() any { return %s }) {\n\t\tverifT.Fatalf(\"VERIF-REPLAY-PRECONDITION: panics-when #%d holds: a panic is the contracted behaviour\")\n\t}\n", e, i)
		}
	}
	for i, oe := range g.olds {
		fmt.Fprintf(body, "\told%d := %s; _ = old%d\n", i, oe, i)
	}
	fmt.Fprintf(body, "\tvb.ResetCalls()\n")
	// call
	callee := fn.Name()
	args := argNames
	if fn.Signature.Recv() != nil {
		callee = argNames[0] + "." + fn.Name()
		args = argNames[1:]
	}
	call := callee + "(" + strings.Join(args, ", ") + ")"
	if fn.Signature.Variadic() {
		call = callee + "(" + strings.Join(args, ", ") + "...)"
	}
	if strings.HasPrefix(kind, "safe:") {
		fmt.Fprintf(body, "\tdefer func() {\n\t\tif r := recover(); r != nil {\n\t\t\tverifT.Fatalf(\"VERIF-REPLAY-CONFIRMED: panic: %%v\", r)\n\t\t}\n\t}()\n")
		if nres > 0 {
			fmt.Fprintf(body, "\t%s = %s\n", strings.Repeat("_, ", nres-1)+"_", call)
		} else {
			fmt.Fprintf(body, "\t%s\n", call)
		}
	} else {
		if nres > 0 {
			fmt.Fprintf(body, "\t%s := %s\n", strings.Join(resNames, ", "), call)
			for _, r := range resNames {
				fmt.Fprintf(body, "\t_ = %s\n", r)
			}
		} else {
			fmt.Fprintf(body, "\t%s\n", call)
		}
		fmt.Fprintf(body, "\tif !(%s) {\n\t\tverifT.Fatalf(\"VERIF-REPLAY-CONFIRMED: clause violated\")\n\t}\n", check)
	}
	// packages the compiled clause names (conversions, constants, type assertions)
	for _, ip := range fn.Pkg.Pkg.Imports() {
		switch ip.Path() {
		case "testing", "fmt", "math/big", "reflect", "strconv", "strings", "unsafe", "errors":
			continue
		}
		if m, _ := regexp.MatchString(`(^|[^A-Za-z0-9_.])`+regexp.QuoteMeta(ip.Name())+`\.[A-Za-z_]`, body.String()+" "+check+" "+strings.Join(g.olds, " ")); m {
			imports[ip.Path()] = true
		}
	}
	var imps []string
	for im := range imports {
		imps = append(imps, im)
	}
	sort.Strings(imps)
	for _, im := range imps {
		switch im {
		case "testing", "fmt", "math/big", "reflect", "strconv", "strings", "unsafe":
			continue
		}
		sb.WriteString("\t\"" + im + "\"\n")
	}
	sb.WriteString(")\n")
	sb.WriteString(dynReplayHelpers)
	sb.WriteString(builderHelpers)
	sb.WriteString("var _ = strconv.Itoa\nvar _ = strings.Join\nvar _ unsafe.Pointer\n")
	if strings.Contains(replayHelpers, "verifErrCode") && !imports[eng.modPath+"/internal/qerr"] {
		// helper needs qerr + errors: emit separately below
	}
	sb.WriteString("\nfunc TestVerifReplay(verifT *testing.T) {\n")
	sb.WriteString(body.String())
	sb.WriteString("}\n")
	src := sb.String()
	src = fixHelperImports(src, eng, fn.Pkg.Pkg)
	rf.Replay["test_source"] = src
	return runReplayTest(eng, rf, pkgPath, fn.Pkg.Pkg.Name(), src)
}

func errCodeExpr(eng *Engine, pkg *types.Package, imports map[string]bool) string {
	return "verifErrCode(e)"
}

// fixHelperImports adds the imports the helpers need (errors, qerr) and defines verifErrCode.
func fixHelperImports(src string, eng *Engine, pkg *types.Package) string {
	qerrPath := eng.modPath + "/internal/qerr"
	helper := "\nfunc verifErrCode(e error) uint64 {\n\tvar te *qerr.TransportError\n\tif errors.As(e, &te) { return uint64(te.ErrorCode) }\n\treturn ^uint64(0)\n}\n"
	if pkg.Path() == qerrPath {
		helper = strings.ReplaceAll(helper, "qerr.", "")
	}
	add := "\t\"errors\"\n"
	if pkg.Path() != qerrPath && !strings.Contains(src, "\""+qerrPath+"\"") {
		add += "\t\"" + qerrPath + "\"\n"
	}
	if !strings.Contains(src, "\t\"errors\"\n") {
		src = strings.Replace(src, "import (\n", "import (\n"+add, 1)
	} else if pkg.Path() != qerrPath && !strings.Contains(src, "\""+qerrPath+"\"") {
		src = strings.Replace(src, "import (\n", "import (\n\t\""+qerrPath+"\"\n", 1)
	}
	return src + helper
}

func exportedOrLocal(t types.Type, pkg *types.Package) bool {
	n := namedOf(t)
	if n == nil {
		return false
	}
	return n.Obj().Pkg() == pkg || n.Obj().Exported()
}

func collectImports(t types.Type, self *types.Package, imports map[string]bool) {
	var walk func(t types.Type, d int)
	walk = func(t types.Type, d int) {
		if d > 4 {
			return
		}
		t = types.Unalias(t)
		switch x := t.(type) {
		case *types.Named:
			if p := x.Obj().Pkg(); p != nil && p != self {
				imports[p.Path()] = true
			}
		case *types.Pointer:
			walk(x.Elem(), d+1)
		case *types.Slice:
			walk(x.Elem(), d+1)
		case *types.Array:
			walk(x.Elem(), d+1)
		case *types.Map:
			walk(x.Key(), d+1)
			walk(x.Elem(), d+1)
		}
	}
	walk(t, 0)
}

func runReplayTest(eng *Engine, rf *ReplayFile, pkgPath, pkgName, src string) string {
	dir, err := os.MkdirTemp("", "govc-replay")
	if err != nil {
		return "not-attempted"
	}
	defer os.RemoveAll(dir)
	rel := strings.TrimPrefix(strings.TrimPrefix(pkgPath, eng.modPath), "/")
	pkgDir := filepath.Join(eng.repo, rel)
	testFile := filepath.Join(dir, "zz_verif_replay_test.go")
	os.WriteFile(testFile, []byte(src), 0o644)
	ov := map[string]map[string]string{"Replace": {filepath.Join(pkgDir, "zz_verif_replay_test.go"): testFile}}
	ovb, _ := json.Marshal(ov)
	ovFile := filepath.Join(dir, "ov.json")
	os.WriteFile(ovFile, ovb, 0o644)
	target := "./" + rel
	if rel == "" {
		target = "."
	}
	cmd := exec.Command("go", "test", "-overlay", ovFile, "-vet=off", "-timeout", "60s", "-count=1", "-run", "^TestVerifReplay$", target)
	cmd.Dir = eng.repo
	cmd.Env = append(loaderEnv(), "GOEXPERIMENT=synctest")
	done := make(chan struct{})
	var out []byte
	go func() { out, _ = cmd.CombinedOutput(); close(done) }()
	select {
	case <-done:
	case <-time.After(180 * time.Second):
		if cmd.Process != nil {
			cmd.Process.Kill()
		}
		rf.Replay["go_test_output"] = "timeout"
		return "not-reproduced"
	}
	rf.Replay["go_test_output"] = truncate(string(out), 4000)
	if strings.Contains(string(out), "VERIF-REPLAY-PRECONDITION") {
		rf.Replay["reason"] = "the input constructed from the model does not satisfy the precondition"
		return "not-reproduced"
	}
	if strings.Contains(string(out), "VERIF-REPLAY-CONFIRMED") {
		return "confirmed"
	}
	if strings.Contains(string(out), "[build failed]") || strings.Contains(string(out), "cannot use") || strings.Contains(string(out), "undefined:") {
		return "not-attempted"
	}
	return "not-reproduced"
}

var _ = token.NoPos

// buildReplayInputs emits Go statements that construct the receiver and arguments from the model.
func buildReplayInputs(eng *Engine, fn *ssa.Function, o *Obligation, model map[string]string, imports map[string]bool) (string, []string, string) {
	qual := relQual(fn)
	body := &strings.Builder{}
	val := func(term string) (string, bool) {
		if term == "" {
			return "", false
		}
		v, ok := model[term]
		if !ok || strings.Contains(v, "error") {
			return "", false
		}
		return strings.Join(strings.Fields(v), " "), true
	}
	var argNames []string
	rootVar := map[string]string{}
	inst := instantiatedParamTypes(eng, fn)
	for i, p := range fn.Params {
		name := p.Name()
		if name == "_" || name == "" {
			name = fmt.Sprintf("arg%d", len(argNames))
		}
		argNames = append(argNames, name)
		rootVar[p.Name()] = name
		pt := p.Type()
		if hasTypeParam(pt) {
			if inst == nil || i >= len(inst) || hasTypeParam(inst[i]) {
				return "", nil, "generic function: no instantiation of its receiver type found in the package"
			}
			pt = inst[i] // method of a generic type: replayed on an instantiation the package itself uses
		}
		collectImports(pt, fn.Pkg.Pkg, imports)
		fmt.Fprintf(body, "\tvar %s %s\n", name, types.TypeString(pt, qual))
	}
	fmt.Fprintf(body, "\tvb := newVerifBuilder()\n")
	// interface-typed locations the verifier treats as effect-free (loggers) get a real default instead of nil
	for _, d := range replayDefaults {
		pp := d.pkg
		if !d.std {
			pp = eng.modPath + "/" + d.pkg
		}
		if eng.typesPkg(pp) == nil {
			continue
		}
		direct := fn.Pkg.Pkg.Path() == pp
		for _, ip := range fn.Pkg.Pkg.Imports() {
			if ip.Path() == pp {
				direct = true
			}
		}
		if !direct {
			continue // importing it from the test could create an import cycle
		}
		qn := d.pkgName + "."
		if fn.Pkg.Pkg.Path() == pp {
			qn = ""
		} else {
			imports[pp] = true
		}
		for _, im := range d.imports {
			imports[im] = true
		}
		val := qn + d.value
		if d.std {
			val = d.value
		}
		fmt.Fprintf(body, "\tvb.Default(reflect.TypeOf((*%s%s)(nil)).Elem(), %s, %v)\n", qn, d.iface, val, d.always)
	}
	// string literals: model value -> text
	lits := map[string]string{}
	for _, fv := range o.Fields {
		if fv.Kind == "strlit" {
			if mv, ok := val(fv.Term); ok {
				lits[mv] = fv.Lit
			}
		}
	}
	strIDs := map[string]int{}
	chosen := map[string]string{} // interface location path -> chosen type id
	splitRoot := func(path string) (string, string) {
		for i := 0; i < len(path); i++ {
			if path[i] == '.' || path[i] == '[' || path[i] == '{' {
				return path[:i], path[i:]
			}
		}
		return path, ""
	}
	ifaceOK := func(path string) bool {
		// every ".(id)" step must agree with the type chosen for the interface at that prefix
		for i := 0; i+1 < len(path); i++ {
			if path[i] == '.' && path[i+1] == '(' {
				j := strings.IndexByte(path[i:], ')')
				if j < 0 {
					return false
				}
				if chosen[path[:i]] != path[i+2:i+j] {
					return false
				}
			}
		}
		return true
	}
	n := 0
	var absent []string // map entries the model says are not present: everything below them is skipped
	for _, fv := range o.Fields {
		if fv.Kind == "strlit" || fv.Kind == "chan" {
			continue
		}
		skip := false
		for _, a := range absent {
			if strings.HasPrefix(fv.Path, a) && fv.Path != a {
				skip = true
			}
		}
		if skip {
			continue
		}
		root, rest := splitRoot(fv.Path)
		rv, ok := rootVar[root]
		if !ok || !ifaceOK(fv.Path) {
			continue
		}
		mv, ok := val(fv.Term)
		if !ok {
			continue
		}
		n++
		switch fv.Kind {
		case "map":
			if !isNilRefModel(mv) {
				fmt.Fprintf(body, "\tvb.Map(&%s, %q)\n", rv, rest)
			}
		case "map-card":
			if bn, ok := parseModelInt(mv); ok && bn.IsInt64() && bn.Int64() >= 0 && bn.Int64() <= 256 {
				fmt.Fprintf(body, "\tvb.MapCard(&%s, %q, %d)\n", rv, rest, bn.Int64())
			}
		case "map-entry":
			kv, ok := val(fv.Extra[0])
			bn, ok2 := parseModelInt(kv)
			if mv != "true" || !ok || !ok2 {
				absent = append(absent, fv.Path)
				continue
			}
			fmt.Fprintf(body, "\tvb.MapEntry(&%s, %q, %q)\n", rv, rest, bn.String())
		case "scalar":
			if mv == "true" || mv == "false" {
				fmt.Fprintf(body, "\tvb.Bool(&%s, %q, %s)\n", rv, rest, mv)
			} else if bn, ok := parseModelInt(mv); ok {
				fmt.Fprintf(body, "\tvb.Int(&%s, %q, %q)\n", rv, rest, bn.String())
			}
		case "ptr":
			if !isNilRefModel(mv) {
				fmt.Fprintf(body, "\tvb.New(&%s, %q, %q)\n", rv, rest, mv)
			}
		case "slice-len":
			ln, ok := parseModelInt(mv)
			if !ok {
				continue
			}
			if ii, ok := isIntType(types.Typ[types.Int]); ok && ln.Sign() >= 0 && ln.Cmp(pow2(ii.bits-1)) >= 0 {
				ln = new(big.Int).Sub(ln, pow2(ii.bits)) // bit-vector model of a negative length: an unconstrained location
			}
			if !ln.IsInt64() || ln.Int64() > 1<<20 || ln.Sign() < 0 {
				fmt.Fprintf(body, "\t// %s: length %s in the model is not constructible (location unconstrained or too large); left nil\n", fv.Path, ln.String())
				continue
			}
			arr, _ := val(fv.Extra[0])
			off, cp := int64(0), ln.Int64()
			if v, ok := val(fv.Extra[1]); ok {
				if bn, ok := parseModelInt(v); ok && bn.IsInt64() && bn.Int64() >= 0 && bn.Int64() <= 1<<16 {
					off = bn.Int64()
				}
			}
			if v, ok := val(fv.Extra[2]); ok {
				if bn, ok := parseModelInt(v); ok && bn.Sign() >= 0 {
					if bn.IsInt64() && bn.Int64() <= ln.Int64()+1<<16 {
						cp = bn.Int64()
					} else {
						cp = ln.Int64() + 1<<16
					}
				}
			}
			if cp < ln.Int64() {
				cp = ln.Int64()
			}
			if (arr == "" || isNilRefModel(arr)) && ln.Sign() == 0 {
				continue // nil slice
			}
			fmt.Fprintf(body, "\tvb.Slice(&%s, %q, %q, %d, %d, %d)\n", rv, rest, arr, off, ln.Int64(), cp)
		case "string":
			if lit, ok := lits[mv]; ok {
				fmt.Fprintf(body, "\tvb.Str(&%s, %q, %q)\n", rv, rest, lit)
				continue
			}
			ln := int64(0)
			if v, ok := val(fv.Extra[0]); ok {
				if bn, ok := parseModelInt(v); ok && bn.IsInt64() && bn.Int64() >= 0 && bn.Int64() <= 1<<16 {
					ln = bn.Int64()
				}
			}
			id, ok := strIDs[mv]
			if !ok {
				id = len(strIDs)
				strIDs[mv] = id
			}
			// distinct model strings get distinct contents of the modelled length
			s := strings.Repeat(string(rune('a'+id%26)), int(ln))
			if ln >= 2 {
				s = fmt.Sprintf("%d", id%10) + s[1:]
			}
			fmt.Fprintf(body, "\tvb.Str(&%s, %q, %q)\n", rv, rest, s)
		case "iface-tag":
			tag, ok := parseModelInt(mv)
			if !ok || tag.Sign() <= 0 || !tag.IsInt64() {
				continue
			}
			ct := eng.typeByID(int(tag.Int64()))
			if ct == nil || !types.AssignableTo(ct, fv.Ty) {
				// non-nil in the model, dynamic type unknown to the engine: a registered stand-in, if there is one, else
				// whatever an exported constructor of the interface's package returns
				fmt.Fprintf(body, "\tvb.UseDefault(&%s, %q)\n", rv, rest)
				if ctors := ctorCandidates(fn.Pkg.Pkg, fv.Ty, imports); len(ctors) > 0 {
					key, _ := val(fv.Extra[0])
					fmt.Fprintf(body, "\tvb.NewFrom(&%s, %q, %q, \"\", %s)\n", rv, rest, key, strings.Join(ctors, ", "))
				}
				continue
			}
			if pt, ok := ct.Underlying().(*types.Pointer); ok && structOf(pt.Elem()) != nil && exportedOrLocal(pt.Elem(), fn.Pkg.Pkg) && !hasTypeParam(pt.Elem()) {
				collectImports(pt.Elem(), fn.Pkg.Pkg, imports)
				key, _ := val(fv.Extra[0])
				fmt.Fprintf(body, "\tvb.NewAs(&%s, %q, %q, reflect.TypeOf((*%s)(nil)))\n", rv, rest, key, types.TypeString(pt.Elem(), qual))
				chosen[fv.Path] = fmt.Sprint(tag.Int64())
			} else if pt, ok := ct.Underlying().(*types.Pointer); ok && structOf(pt.Elem()) != nil && !hasTypeParam(pt.Elem()) {
				// a concrete type the test cannot name (unexported, other package): obtain it from an exported constructor
				if ctors := ctorCandidates(fn.Pkg.Pkg, ct, imports); len(ctors) > 0 {
					key, _ := val(fv.Extra[0])
					n := namedOf(pt.Elem())
					fmt.Fprintf(body, "\tvb.NewFrom(&%s, %q, %q, %q, %s)\n", rv, rest, key, "*"+n.Obj().Pkg().Name()+"."+n.Obj().Name(), strings.Join(ctors, ", "))
					chosen[fv.Path] = fmt.Sprint(tag.Int64())
				}
			} else if b, ok := ct.Underlying().(*types.Basic); ok && b.Info()&types.IsInteger != 0 && exportedOrLocal(ct, fn.Pkg.Pkg) {
				if v, ok := val(fv.Extra[1]); ok {
					if bn, ok := parseModelInt(v); ok {
						collectImports(ct, fn.Pkg.Pkg, imports)
						fmt.Fprintf(body, "\tvb.Iface(&%s, %q, %s(%s))\n", rv, rest, types.TypeString(ct, qual), goIntLit(bn, ct))
					}
				}
			}
		}
	}
	var roots []string
	for _, a := range argNames {
		roots = append(roots, "&"+a)
	}
	if len(roots) > 0 {
		fmt.Fprintf(body, "\tvb.Fill(%s)\n", strings.Join(roots, ", "))
	}
	fmt.Fprintf(body, "\tfor _, n := range vb.notes { verifT.Log(\"verif builder: \" + n) }\n")
	return body.String(), argNames, ""
}

// replayDefaults: values given to nil interface fields of these types in replayed objects.
// always: also where the model says nothing about the field (the verifier treats the interface as effect-free);
// otherwise only where the model's dynamic type tag says the interface is non-nil and names no type the engine knows.
var replayDefaults = []struct {
	pkg, pkgName, iface, value string
	std, always                bool
	imports                    []string
}{
	{pkg: "internal/utils", pkgName: "utils", iface: "Logger", value: "DefaultLogger", always: true},
	{pkg: "crypto/cipher", pkgName: "cipher", iface: "AEAD", std: true,
		value: "func() cipher.AEAD { b, _ := aes.NewCipher(make([]byte, 16)); a, _ := cipher.NewGCM(b); return a }()", imports: []string{"crypto/aes"}},
	{pkg: "crypto/cipher", pkgName: "cipher", iface: "Block", std: true,
		value: "func() cipher.Block { b, _ := aes.NewCipher(make([]byte, 16)); return b }()", imports: []string{"crypto/aes"}},
}

// ctorCandidates: Go closures calling exported package-level functions of ct's package (with zero arguments) whose first
// result is ct or an interface ct implements. Only packages the function's package imports directly are used.
func ctorCandidates(self *types.Package, ct types.Type, imports map[string]bool) []string {
	n := namedOf(ct)
	if pt, ok := ct.Underlying().(*types.Pointer); ok {
		n = namedOf(pt.Elem())
	}
	if n == nil || n.Obj().Pkg() == nil {
		return nil
	}
	wantIface, _ := ct.Underlying().(*types.Interface)
	tp := n.Obj().Pkg()
	direct := tp == self
	for _, ip := range self.Imports() {
		if ip == tp {
			direct = true
		}
	}
	if !direct {
		return nil
	}
	qual := func(p *types.Package) string {
		if p == self {
			return ""
		}
		return p.Name()
	}
	ptrNew := false // pointer-to-struct parameters get a fresh zero object instead of nil
	zero := func(t types.Type) (string, bool) {
		if pt, ok := t.Underlying().(*types.Pointer); ok && ptrNew {
			if nn := namedOf(pt.Elem()); nn != nil && structOf(pt.Elem()) != nil && (nn.Obj().Exported() || nn.Obj().Pkg() == self) && !hasTypeParam(pt.Elem()) && nn.Obj().Pkg() != nil {
				ok := nn.Obj().Pkg() == self
				for _, ip := range self.Imports() {
					if ip == nn.Obj().Pkg() {
						ok = true
					}
				}
				if ok {
					if nn.Obj().Pkg() != self {
						imports[nn.Obj().Pkg().Path()] = true
					}
					return "new(" + types.TypeString(pt.Elem(), qual) + ")", true
				}
			}
		}
		switch u := t.Underlying().(type) {
		case *types.Basic:
			switch {
			case u.Info()&types.IsBoolean != 0:
				return "false", true
			case u.Info()&types.IsString != 0:
				return "\"\"", true
			case u.Info()&types.IsNumeric != 0:
				return "0", true
			}
		case *types.Pointer, *types.Slice, *types.Map, *types.Chan, *types.Signature, *types.Interface:
			return "nil", true
		case *types.Struct:
			if nn := namedOf(t); nn != nil && (nn.Obj().Exported() || nn.Obj().Pkg() == self) && !hasTypeParam(t) {
				if nn.Obj().Pkg() != nil && nn.Obj().Pkg() != self {
					ok := false
					for _, ip := range self.Imports() {
						if ip == nn.Obj().Pkg() {
							ok = true
						}
					}
					if !ok {
						return "", false
					}
					imports[nn.Obj().Pkg().Path()] = true
				}
				return types.TypeString(t, qual) + "{}", true
			}
		}
		return "", false
	}
	var out []string
	names := tp.Scope().Names()
	// callOf: a call of the exported function name with zero arguments; with nest, interface parameters declared in
	// the same package are themselves obtained from a single-result constructor (constructors often type-assert them)
	var callOf func(name string, nest bool) (string, *types.Signature, bool)
	callOf = func(name string, nest bool) (string, *types.Signature, bool) {
		f, ok := tp.Scope().Lookup(name).(*types.Func)
		if !ok || (!f.Exported() && tp != self) || strings.HasPrefix(name, "Test") || strings.HasPrefix(name, "Benchmark") || strings.HasPrefix(name, "Fuzz") {
			return "", nil, false
		}
		sig := f.Type().(*types.Signature)
		if sig.Recv() != nil || sig.TypeParams() != nil || sig.Results().Len() == 0 || sig.Variadic() {
			return "", nil, false
		}
		var args []string
		for i := 0; i < sig.Params().Len(); i++ {
			pt := sig.Params().At(i).Type()
			if pit, isI := pt.Underlying().(*types.Interface); isI && nest {
				if pn := namedOf(pt); pn != nil && pn.Obj().Pkg() == tp {
					found := ""
					for _, n2 := range names {
						if n2 == name {
							continue
						}
						if c2, s2, ok := callOf(n2, false); ok && s2.Results().Len() == 1 && (types.Identical(s2.Results().At(0).Type(), pt) || types.Implements(s2.Results().At(0).Type(), pit)) {
							found = c2
							break
						}
					}
					if found == "" {
						// an exported struct type of that package whose zero value implements the interface
						for _, n2 := range names {
							tn, ok := tp.Scope().Lookup(n2).(*types.TypeName)
							if !ok || !tn.Exported() || structOf(tn.Type()) == nil || hasTypeParam(tn.Type()) {
								continue
							}
							q := tp.Name() + "."
							if tp == self {
								q = ""
							}
							if types.Implements(tn.Type(), pit) {
								found = q + n2 + "{}"
								break
							}
							if types.Implements(types.NewPointer(tn.Type()), pit) {
								found = "&" + q + n2 + "{}"
								break
							}
						}
					}
					if found != "" {
						args = append(args, found)
						continue
					}
				}
			}
			z, ok := zero(pt)
			if !ok {
				return "", nil, false
			}
			args = append(args, z)
		}
		if tp == self {
			return fmt.Sprintf("%s(%s)", name, strings.Join(args, ", ")), sig, true
		}
		return fmt.Sprintf("%s.%s(%s)", tp.Name(), name, strings.Join(args, ", ")), sig, true
	}
	for variant := 0; variant < 3; variant++ {
		nest := variant >= 1
		ptrNew = variant >= 2
		for _, name := range names {
			call, sig, ok := callOf(name, nest)
			if !ok {
				continue
			}
			rt := sig.Results().At(0).Type()
			okRes := types.Identical(rt, ct)
			if wantIface != nil {
				// any concrete pointer type that implements the wanted interface
				_, isPtr := rt.Underlying().(*types.Pointer)
				okRes = isPtr && wantIface.NumMethods() > 0 && types.Implements(rt, wantIface)
			} else if it, isI := rt.Underlying().(*types.Interface); isI && !okRes {
				okRes = types.Implements(ct, it) && it.NumMethods() > 0
			}
			if !okRes {
				continue
			}
			lhs := "r"
			for i := 1; i < sig.Results().Len(); i++ {
				lhs += ", _"
			}
			if tp != self {
				imports[tp.Path()] = true
			}
			c := fmt.Sprintf("func() any { %s := %s; return r }", lhs, call)
			dup := false
			for _, o := range out {
				if o == c {
					dup = true
				}
			}
			if !dup {
				out = append(out, c)
			}
			if len(out) >= 6 {
				return out
			}
		}
	}
	return out
}

// instantiatedParamTypes: for a method of a generic named type, the parameter types (receiver first) under the first
// instantiation of that type found in the package's own source.
func instantiatedParamTypes(eng *Engine, fn *ssa.Function) []types.Type {
	recv := fn.Signature.Recv()
	if recv == nil {
		return nil
	}
	rt := recv.Type()
	isPtr := false
	if pt, ok := rt.(*types.Pointer); ok {
		rt, isPtr = pt.Elem(), true
	}
	named, ok := types.Unalias(rt).(*types.Named)
	if !ok || named.Origin().TypeParams() == nil {
		return nil
	}
	origin := named.Origin()
	pkg := eng.allPkgs[fn.Pkg.Pkg.Path()]
	if pkg == nil || pkg.TypesInfo == nil {
		return nil
	}
	var best *types.Named
	for _, in := range pkg.TypesInfo.Instances {
		n, ok := types.Unalias(in.Type).(*types.Named)
		if !ok || n.Origin() != origin || hasTypeParam(n) {
			continue
		}
		if best == nil || types.TypeString(n, nil) < types.TypeString(best, nil) {
			best = n // deterministic choice
		}
	}
	if best == nil {
		return nil
	}
	var rcv types.Type = best
	if isPtr {
		rcv = types.NewPointer(best)
	}
	obj, _, _ := types.LookupFieldOrMethod(rcv, true, fn.Pkg.Pkg, fn.Name())
	m, ok := obj.(*types.Func)
	if !ok {
		return nil
	}
	sig := m.Type().(*types.Signature)
	out := []types.Type{rcv}
	for i := 0; i < sig.Params().Len(); i++ {
		out = append(out, sig.Params().At(i).Type())
	}
	return out
}

func hasTypeParam(t types.Type) bool {
	found := false
	var walk func(t types.Type, d int)
	walk = func(t types.Type, d int) {
		if d > 6 || found {
			return
		}
		switch x := types.Unalias(t).(type) {
		case *types.TypeParam:
			found = true
		case *types.Named:
			if ta := x.TypeArgs(); ta != nil {
				for i := 0; i < ta.Len(); i++ {
					walk(ta.At(i), d+1)
				}
			}
		case *types.Pointer:
			walk(x.Elem(), d+1)
		case *types.Slice:
			walk(x.Elem(), d+1)
		case *types.Array:
			walk(x.Elem(), d+1)
		case *types.Map:
			walk(x.Key(), d+1)
			walk(x.Elem(), d+1)
		case *types.Signature:
			for i := 0; i < x.Params().Len(); i++ {
				walk(x.Params().At(i).Type(), d+1)
			}
		}
	}
	walk(t, 0)
	return found
}

const builderHelpers = `
type verifMapEntry struct {
	m, key, val reflect.Value
}

type verifBuilder struct {
	staged   map[string]*verifMapEntry // "<root addr>|<path>{j}" -> entry under construction
	order    []*verifMapEntry
	cards    []verifMapEntry // m, and val = the wanted cardinality
	objs     map[string]reflect.Value
	arrays   map[string]reflect.Value
	defaults map[reflect.Type]reflect.Value
	always   map[reflect.Type]bool
	calls    map[string]int // calls of the no-op callbacks Fill installed, by struct field name
	notes    []string
}

func (b *verifBuilder) Default(t reflect.Type, v any, always bool) {
	if v != nil {
		b.defaults[t] = reflect.ValueOf(v)
		b.always[t] = always
	}
}

func (b *verifBuilder) UseDefault(root any, path string) {
	if v, ok := b.at(root, path); ok && v.Kind() == reflect.Interface && v.IsNil() {
		if dv, ok := b.defaults[v.Type()]; ok {
			v.Set(dv)
		}
	}
}

func newVerifBuilder() *verifBuilder {
	return &verifBuilder{staged: map[string]*verifMapEntry{}, objs: map[string]reflect.Value{}, arrays: map[string]reflect.Value{}, defaults: map[reflect.Type]reflect.Value{}, always: map[reflect.Type]bool{}, calls: map[string]int{}}
}

func verifSettable(v reflect.Value) reflect.Value {
	if v.CanAddr() && !v.CanSet() {
		return reflect.NewAt(v.Type(), unsafe.Pointer(v.UnsafeAddr())).Elem()
	}
	return v
}

// at resolves a path below *root: ".name" field, "[k]" element, ".(id)" interface payload, ".*" pointee.
func (b *verifBuilder) at(root any, path string) (cur reflect.Value, ok bool) {
	defer func() {
		if r := recover(); r != nil {
			b.notes = append(b.notes, fmt.Sprintf("%s: %v", path, r))
			ok = false
		}
	}()
	cur = reflect.ValueOf(root).Elem()
	deref := func() bool {
		for {
			switch cur.Kind() {
			case reflect.Ptr, reflect.Interface:
				if cur.IsNil() {
					return false
				}
				cur = cur.Elem()
			default:
				return true
			}
		}
	}
	i := 0
	for i < len(path) {
		switch path[i] {
		case '.':
			j := i + 1
			if j < len(path) && path[j] == '(' {
				i = j + strings.IndexByte(path[j:], ')') + 1
				continue
			}
			if j < len(path) && path[j] == '*' {
				if !deref() {
					return cur, false
				}
				i = j + 1
				continue
			}
			k := j
			for k < len(path) && path[k] != '.' && path[k] != '[' {
				k++
			}
			if !deref() || cur.Kind() != reflect.Struct {
				return cur, false
			}
			f := cur.FieldByName(path[j:k])
			if !f.IsValid() {
				return cur, false
			}
			cur = verifSettable(f)
			i = k
		case '{':
			k := strings.IndexByte(path[i:], '}')
			e, ok := b.staged[fmt.Sprintf("%p|%s", root, path[:i+k+1])]
			if !ok {
				return cur, false
			}
			cur = e.val
			i += k + 1
		case '[':
			k := strings.IndexByte(path[i:], ']')
			n, _ := strconv.Atoi(path[i+1 : i+k])
			if !deref() || (cur.Kind() != reflect.Slice && cur.Kind() != reflect.Array) || n >= cur.Len() {
				return cur, false
			}
			cur = verifSettable(cur.Index(n))
			i += k + 1
		default:
			return cur, false
		}
	}
	return cur, cur.CanSet()
}

func (b *verifBuilder) Int(root any, path, val string) {
	v, ok := b.at(root, path)
	if !ok {
		return
	}
	n, _ := new(big.Int).SetString(val, 10)
	switch v.Kind() {
	case reflect.Int, reflect.Int8, reflect.Int16, reflect.Int32, reflect.Int64:
		bits := uint(v.Type().Bits())
		m := new(big.Int).Lsh(big.NewInt(1), bits)
		r := new(big.Int).Mod(n, m)
		if r.Cmp(new(big.Int).Rsh(m, 1)) >= 0 {
			r.Sub(r, m)
		}
		v.SetInt(r.Int64())
	case reflect.Uint, reflect.Uint8, reflect.Uint16, reflect.Uint32, reflect.Uint64, reflect.Uintptr:
		bits := uint(v.Type().Bits())
		m := new(big.Int).Lsh(big.NewInt(1), bits)
		v.SetUint(new(big.Int).Mod(n, m).Uint64())
	case reflect.Bool:
		v.SetBool(n.Sign() != 0)
	}
}

func (b *verifBuilder) Map(root any, path string) {
	if v, ok := b.at(root, path); ok && v.Kind() == reflect.Map && v.IsNil() {
		v.Set(reflect.MakeMap(v.Type()))
	}
}

func (b *verifBuilder) MapCard(root any, path string, n int) {
	if v, ok := b.at(root, path); ok && v.Kind() == reflect.Map && !v.IsNil() {
		b.cards = append(b.cards, verifMapEntry{m: v, val: reflect.ValueOf(n)})
	}
}

// MapEntry stages the entry path = "<map path>{j}" with the given key; the value is filled through further paths and
// stored into the map by Fill.
func (b *verifBuilder) MapEntry(root any, path, key string) {
	i := strings.LastIndexByte(path, '{')
	m, ok := b.at(root, path[:i])
	if !ok || m.Kind() != reflect.Map {
		return
	}
	if m.IsNil() {
		m.Set(reflect.MakeMap(m.Type()))
	}
	kv := reflect.New(m.Type().Key()).Elem()
	n, _ := new(big.Int).SetString(key, 10)
	switch kv.Kind() {
	case reflect.Int, reflect.Int8, reflect.Int16, reflect.Int32, reflect.Int64:
		kv.SetInt(n.Int64())
	case reflect.Uint, reflect.Uint8, reflect.Uint16, reflect.Uint32, reflect.Uint64, reflect.Uintptr:
		kv.SetUint(n.Uint64())
	default:
		return
	}
	e := &verifMapEntry{m: m, key: kv, val: reflect.New(m.Type().Elem()).Elem()}
	b.staged[fmt.Sprintf("%p|%s", root, path)] = e
	b.order = append(b.order, e)
}

func (b *verifBuilder) commitMaps() {
	for _, e := range b.order {
		e.m.SetMapIndex(e.key, e.val)
	}
	// the model's cardinality: other keys the VCs never ask about are present too
	for _, e := range b.cards {
		want := int(e.val.Int())
		for next := int64(1 << 40); e.m.Len() < want; next++ {
			kv := reflect.New(e.m.Type().Key()).Elem()
			switch kv.Kind() {
			case reflect.Int, reflect.Int64:
				kv.SetInt(next)
			case reflect.Uint, reflect.Uint64:
				kv.SetUint(uint64(next))
			default:
				return
			}
			e.m.SetMapIndex(kv, reflect.Zero(e.m.Type().Elem()))
		}
	}
	b.order = nil
}

func (b *verifBuilder) ResetCalls() {
	for k := range b.calls {
		delete(b.calls, k)
	}
}

func (b *verifBuilder) Called(field string) any { return big.NewInt(int64(b.calls[field])) }

func (b *verifBuilder) Bool(root any, path string, val bool) {
	if v, ok := b.at(root, path); ok && v.Kind() == reflect.Bool {
		v.SetBool(val)
	}
}

func (b *verifBuilder) Str(root any, path, val string) {
	if v, ok := b.at(root, path); ok && v.Kind() == reflect.String {
		v.SetString(val)
	}
}

func (b *verifBuilder) New(root any, path, key string) {
	v, ok := b.at(root, path)
	if !ok || v.Kind() != reflect.Ptr {
		return
	}
	k := key + "|" + v.Type().String()
	if o, ok := b.objs[k]; ok {
		v.Set(o)
		return
	}
	o := reflect.New(v.Type().Elem())
	b.objs[k] = o
	v.Set(o)
}

func (b *verifBuilder) NewAs(root any, path, key string, typ reflect.Type) {
	v, ok := b.at(root, path)
	if !ok || v.Kind() != reflect.Interface || !typ.Implements(v.Type()) {
		return
	}
	k := key + "|" + typ.String()
	if o, ok := b.objs[k]; ok {
		v.Set(o)
		return
	}
	o := reflect.New(typ.Elem())
	b.objs[k] = o
	v.Set(o)
}

// NewFrom: the interface location gets a zeroed object of the (unnameable) concrete type want, whose reflect.Type is
// taken from whichever constructor returns a value of that type.
func (b *verifBuilder) NewFrom(root any, path, key, want string, ctors ...func() any) {
	if v, ok := b.at(root, path); ok && v.Kind() == reflect.Interface && !v.IsNil() {
		return // already given a value (default stand-in)
	}
	for _, c := range ctors {
		var typ reflect.Type
		func() {
			defer func() { recover() }()
			if x := c(); x != nil {
				typ = reflect.TypeOf(x)
			}
		}()
		if typ != nil && (typ.String() == want || want == "") && typ.Kind() == reflect.Ptr {
			b.NewAs(root, path, key, typ)
			return
		}
	}
	b.notes = append(b.notes, path+": no constructor yields "+want)
}

func (b *verifBuilder) Iface(root any, path string, val any) {
	v, ok := b.at(root, path)
	if !ok || v.Kind() != reflect.Interface || !reflect.TypeOf(val).Implements(v.Type()) {
		return
	}
	v.Set(reflect.ValueOf(val))
}

func (b *verifBuilder) Slice(root any, path, arr string, off, n, cp int) {
	v, ok := b.at(root, path)
	if !ok || v.Kind() != reflect.Slice {
		return
	}
	k := arr + "|" + v.Type().String()
	backing, have := b.arrays[k]
	if !have || backing.Len() < off+cp {
		nb := reflect.MakeSlice(v.Type(), off+cp, off+cp)
		if have {
			reflect.Copy(nb, backing)
		}
		backing = nb
		if arr != "" {
			b.arrays[k] = nb
		}
	}
	v.Set(backing.Slice3(off, off+n, off+cp))
}

// Fill gives every nil map and channel in the constructed objects an empty value (the verifier's maps and channels are
// total: reading and writing them never panics), nil loggers the default logger, and nil callbacks a no-op.
func (b *verifBuilder) Fill(roots ...any) {
	b.commitMaps()
	seen := map[uintptr]bool{}
	var walk func(v reflect.Value, d int)
	fieldName := ""
	walk = func(v reflect.Value, d int) {
		if d > 8 {
			return
		}
		fname := fieldName
		fieldName = ""
		switch v.Kind() {
		case reflect.Ptr:
			if v.IsNil() || seen[v.Pointer()] {
				return
			}
			seen[v.Pointer()] = true
			walk(v.Elem(), d+1)
		case reflect.Interface:
			if v.IsNil() {
				if dv, ok := b.defaults[v.Type()]; ok && v.CanSet() && b.always[v.Type()] {
					v.Set(dv)
				}
				return
			}
			walk(v.Elem(), d+1)
		case reflect.Struct:
			for i := 0; i < v.NumField(); i++ {
				fieldName = v.Type().Field(i).Name
				walk(verifSettable(v.Field(i)), d+1)
			}
		case reflect.Slice:
			for i := 0; i < v.Len() && i < 8; i++ {
				walk(verifSettable(v.Index(i)), d+1)
			}
		case reflect.Map:
			if v.IsNil() && v.CanSet() {
				v.Set(reflect.MakeMap(v.Type()))
			}
		case reflect.Chan:
			if v.IsNil() && v.CanSet() && v.Type().ChanDir() == reflect.BothDir {
				v.Set(reflect.MakeChan(v.Type(), 4))
			}
		case reflect.Func:
			// function-valued fields (callbacks): the verifier assumes calling them changes nothing it models
			if v.IsNil() && v.CanSet() && d > 0 {
				ft := v.Type()
				v.Set(reflect.MakeFunc(ft, func([]reflect.Value) []reflect.Value {
					b.calls[fname]++ // observable through called("field:<name>") in the replayed clause
					out := make([]reflect.Value, ft.NumOut())
					for i := range out {
						out[i] = reflect.Zero(ft.Out(i))
					}
					return out
				}))
			}
		}
	}
	for _, r := range roots {
		walk(reflect.ValueOf(r), 0)
	}
}
`
