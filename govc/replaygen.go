package main

// Replay of solver counterexamples on the real code.
//
// For a failed obligation with a model, an in-package Go test is generated: the receiver/arguments are built from the
// model (scalar fields of pointer-to-struct parameters, one level of pointer/interface indirection), the function is
// called, and the violated clause — compiled from the contract expression to Go — is evaluated. The test is injected
// with `go test -overlay` (nothing is written into the repository). "confirmed" means the real code exhibited the
// violation; anything else ends in no-failing-input-found.

import (
	"encoding/json"
	"fmt"
	"go/ast"
	"go/token"
	"go/types"
	"math/big"
	"os"
	"os/exec"
	"path/filepath"
	"sort"
	"strings"
	"time"

	"golang.org/x/tools/go/ssa"
)

// fieldVar: one scalar location reachable from a parameter, with the SMT term of its entry value.
type fieldVar struct {
	Path string     // Go selector path, e.g. "c.baseFlowController.bytesSent"; "#len(c.x)" etc. for slices
	Term string     // SMT term (entry state)
	Ty   types.Type // Go type of the location
	Kind string     // scalar | ptr | iface-tag | iface-ref | slice-len
}

// entryFieldVars enumerates scalar locations reachable from the parameters whose heaps are used by the VCs.
func (c *Ctx) entryFieldVars() []fieldVar {
	var out []fieldVar
	if c.fn == nil {
		return nil
	}
	seen := map[string]bool{}
	var walkStruct func(path, ref string, t types.Type, depth int)
	walkStruct = func(path, ref string, t types.Type, depth int) {
		st := structOf(t)
		if st == nil || depth > 3 || seen[path] {
			return
		}
		seen[path] = true
		for i := 0; i < st.NumFields(); i++ {
			f := st.Field(i)
			fp := path + "." + f.Name()
			ft := f.Type()
			if structOf(ft) != nil {
				if _, isNamedPtr := ft.Underlying().(*types.Pointer); !isNamedPtr {
					walkStruct(fp, fmt.Sprintf("(mksub %s %d)", ref, i), ft, depth)
					continue
				}
			}
			used := func(cp string) bool { return c.declSet["heap:"+fieldHeapName(typeName(t), f.Name(), cp)] }
			rd := func(cp string) string {
				return fmt.Sprintf("(select %s %s)", q(fieldHeapName(typeName(t), f.Name(), cp)+"@0"), ref)
			}
			switch u := ft.Underlying().(type) {
			case *types.Basic:
				if used("") {
					out = append(out, fieldVar{fp, rd(""), ft, "scalar"})
				}
			case *types.Pointer:
				if used("") {
					out = append(out, fieldVar{fp, rd(""), ft, "ptr"})
					if structOf(u.Elem()) != nil {
						walkStruct(fp, rd(""), u.Elem(), depth+1)
					}
				}
			case *types.Interface:
				if used("#tag") {
					out = append(out, fieldVar{fp, rd("#tag"), ft, "iface-tag"})
					// devirtualised interface: expose the concrete object
					if _, ct := c.eng.devirt(ft, firstMethod(u)); ct != nil {
						if pt, ok := ct.(*types.Pointer); ok {
							out = append(out, fieldVar{fp + "#ref", rd("#pref"), ct, "iface-ref"})
							walkStruct(fp+".("+types.TypeString(ct, relQual(c.fn))+")", rd("#pref"), pt.Elem(), depth+1)
						}
					}
				}
			case *types.Slice:
				if used("#len") {
					out = append(out, fieldVar{fp, rd("#len"), ft, "slice-len"})
				}
			}
		}
	}
	for _, p := range c.fn.Params {
		v, ok := c.entryEnvVars[p.Name()]
		if !ok {
			continue
		}
		if sc, ok := v.(Scalar); ok && sc.S == SRef {
			if pt, ok := sc.Ty.Underlying().(*types.Pointer); ok && structOf(pt.Elem()) != nil {
				walkStruct(p.Name(), sc.T, pt.Elem(), 0)
			}
		}
	}
	return out
}

func firstMethod(it *types.Interface) string {
	if it.NumMethods() > 0 {
		return it.Method(0).Name()
	}
	return ""
}

func relQual(fn *ssa.Function) types.Qualifier {
	return func(p *types.Package) string {
		if fn != nil && fn.Pkg != nil && p == fn.Pkg.Pkg {
			return ""
		}
		return p.Name()
	}
}

// ---------- model values ----------

func parseModelInt(v string) (*big.Int, bool) {
	v = strings.TrimSpace(v)
	if strings.HasPrefix(v, "#x") {
		n, ok := new(big.Int).SetString(v[2:], 16)
		return n, ok
	}
	if strings.HasPrefix(v, "#b") {
		n, ok := new(big.Int).SetString(v[2:], 2)
		return n, ok
	}
	if strings.HasPrefix(v, "(_ bv") {
		f := strings.Fields(v[5:])
		n, ok := new(big.Int).SetString(f[0], 10)
		return n, ok
	}
	return isNumeral(strings.Join(strings.Fields(v), " "))
}

func goIntLit(n *big.Int, t types.Type) string {
	ii, ok := isIntType(t)
	if ok && ii.signed && n.Sign() >= 0 && n.Cmp(pow2(ii.bits-1)) >= 0 {
		n = new(big.Int).Sub(n, pow2(ii.bits)) // bit-vector value of a signed type
	}
	return n.String()
}

func isNilRefModel(v string) bool {
	v = strings.Join(strings.Fields(v), " ")
	return v == "(mkobj 0)" || v == "rnil"
}

// ---------- contract expression -> Go ----------

type goCompiler struct {
	eng    *Engine
	pkg    *types.Package
	pc     *PkgContracts
	olds   []string // Go expressions captured before the call
	subst  map[string]string
	lets   []*LetDef
	failed string
	depth  int
}

func (g *goCompiler) fail(msg string) string {
	if g.failed == "" {
		g.failed = msg
	}
	return "false"
}

func (g *goCompiler) expr(x ast.Expr) string {
	switch v := x.(type) {
	case *ast.ParenExpr:
		return "(" + g.expr(v.X) + ")"
	case *ast.BasicLit:
		return v.Value
	case *ast.Ident:
		if s, ok := g.subst[v.Name]; ok {
			return s
		}
		for _, l := range g.lets {
			if l.Name == v.Name {
				g.depth++
				if g.depth > 30 {
					return g.fail("let recursion")
				}
				r := "(" + g.expr(l.Expr) + ")"
				g.depth--
				return r
			}
		}
		if g.pc != nil {
			if ce, ok := g.pc.Consts[v.Name]; ok {
				return "(" + g.expr(ce) + ")"
			}
		}
		return v.Name
	case *ast.SelectorExpr:
		return g.expr(v.X) + "." + v.Sel.Name
	case *ast.StarExpr:
		return "*" + g.expr(v.X)
	case *ast.UnaryExpr:
		return v.Op.String() + g.expr(v.X)
	case *ast.BinaryExpr:
		return "(" + g.expr(v.X) + " " + v.Op.String() + " " + g.expr(v.Y) + ")"
	case *ast.IndexExpr:
		return g.expr(v.X) + "[" + g.expr(v.Index) + "]"
	case *ast.SliceExpr:
		lo, hi := "", ""
		if v.Low != nil {
			lo = g.expr(v.Low)
		}
		if v.High != nil {
			hi = g.expr(v.High)
		}
		return g.expr(v.X) + "[" + lo + ":" + hi + "]"
	case *ast.CallExpr:
		return g.call(v)
	}
	return g.fail(fmt.Sprintf("unsupported expression %T", x))
}

func (g *goCompiler) call(v *ast.CallExpr) string {
	arg := func(i int) string { return g.expr(v.Args[i]) }
	if id, ok := v.Fun.(*ast.Ident); ok {
		switch id.Name {
		case "old":
			// capture before the call
			sub := &goCompiler{eng: g.eng, pkg: g.pkg, pc: g.pc, subst: g.subst, lets: g.lets}
			e := sub.expr(v.Args[0])
			if sub.failed != "" {
				return g.fail(sub.failed)
			}
			g.olds = append(g.olds, e)
			return fmt.Sprintf("old%d", len(g.olds)-1)
		case "implies":
			return "(!(" + arg(0) + ") || (" + arg(1) + "))"
		case "iff":
			return "((" + arg(0) + ") == (" + arg(1) + "))"
		case "ite":
			return "verifIte(" + arg(0) + ", func() any { return " + arg(1) + " }, func() any { return " + arg(2) + " })"
		case "len", "cap", "min", "max":
			var as []string
			for i := range v.Args {
				as = append(as, arg(i))
			}
			return id.Name + "(" + strings.Join(as, ", ") + ")"
		case "iserr":
			return "verifIsErr(" + arg(0) + ", uint64(" + arg(1) + "))"
		case "dyn":
			return arg(0) + ".(" + g.expr(v.Args[1]) + ")"
		case "typeis":
			return "verifTypeIs[" + g.expr(v.Args[1]) + "](" + arg(0) + ")"
		case "forall":
			if len(v.Args) >= 4 {
				k := v.Args[0].(*ast.Ident).Name
				return fmt.Sprintf("verifForall(int(%s), int(%s), func(%s int) bool { return %s })", arg(1), arg(2), k, arg(3))
			}
		case "isfresh", "samearray", "alias", "lastresult", "ufi", "uf", "ufb", "called", "in", "has", "forall2", "exists":
			return g.fail("clause uses " + id.Name + " (not executable)")
		}
		// spec function
		if sf := findSpecIn(g.eng, g.pc, id.Name, ""); sf != nil {
			return g.inlineSpec(sf, "", v.Args)
		}
		// conversion
		var as []string
		for i := range v.Args {
			as = append(as, arg(i))
		}
		return id.Name + "(" + strings.Join(as, ", ") + ")"
	}
	if sel, ok := v.Fun.(*ast.SelectorExpr); ok {
		// pkg.spec(...) / pkg.Type(x) / recv.pred(...)
		if id, ok := sel.X.(*ast.Ident); ok {
			if _, isSub := g.subst[id.Name]; !isSub {
				for _, pc := range g.eng.db.Pkgs {
					if shortPkg(pc.Pkg) == id.Name {
						if sf, ok := pc.Specs[sel.Sel.Name]; ok {
							return g.inlineSpec(sf, "", v.Args)
						}
					}
				}
			}
		}
		// receiver predicate: search by method name over all receiver preds
		for _, pc := range g.eng.db.Pkgs {
			for key, sf := range pc.Specs {
				if sf.RecvType != "" && strings.HasSuffix(key, "."+sel.Sel.Name) && sf.Name == sel.Sel.Name {
					return g.inlineSpec(sf, g.expr(sel.X), v.Args)
				}
			}
		}
		var as []string
		for i := range v.Args {
			as = append(as, arg(i))
		}
		return g.expr(sel) + "(" + strings.Join(as, ", ") + ")"
	}
	return g.fail("unsupported call")
}

func findSpecIn(eng *Engine, pc *PkgContracts, name, recv string) *SpecFunc {
	key := name
	if recv != "" {
		key = recv + "." + name
	}
	if pc != nil {
		if sf, ok := pc.Specs[key]; ok {
			return sf
		}
	}
	for _, p := range eng.db.Pkgs {
		if sf, ok := p.Specs[key]; ok {
			return sf
		}
	}
	return nil
}

func (g *goCompiler) inlineSpec(sf *SpecFunc, recv string, args []ast.Expr) string {
	g.depth++
	defer func() { g.depth-- }()
	if g.depth > 30 {
		return g.fail("spec recursion")
	}
	ns := map[string]string{}
	for k, v := range g.subst {
		ns[k] = v
	}
	for i, p := range sf.Params {
		if i < len(args) {
			ns[p] = "(" + g.expr(args[i]) + ")"
		}
	}
	if recv != "" {
		ns[sf.RecvName] = "(" + recv + ")"
	}
	sub := &goCompiler{eng: g.eng, pkg: g.pkg, pc: g.eng.db.Pkgs[sf.Pkg], subst: ns, depth: g.depth}
	r := "(" + sub.expr(sf.Body) + ")"
	if sub.failed != "" {
		return g.fail(sub.failed)
	}
	g.olds = append(g.olds, sub.olds...)
	return r
}

// ---------- test generation ----------

const replayHelpers = `
func verifIte(c bool, a, b func() any) any { if c { return a() }; return b() }
func verifForall(lo, hi int, f func(int) bool) bool { for k := lo; k < hi; k++ { if !f(k) { return false } }; return true }
func verifTypeIs[T any](x any) bool { _, ok := x.(T); return ok }
func verifIsErr(e error, code uint64) bool {
	type coder interface{ Is(error) bool }
	if e == nil { return false }
	return verifErrCode(e) == code
}
`

func replayOnRealCode(eng *Engine, rf *ReplayFile, st *oblStatus, fr *FuncResult) string {
	o := st.FailInst
	if o == nil || st.FailRes == nil || st.FailRes.Model == nil {
		return "not-attempted"
	}
	kind := o.Kind
	if kind != "post" && !strings.HasPrefix(kind, "safe:") {
		rf.Replay["reason"] = "replay is generated for post: and safe: obligations only"
		return "not-attempted"
	}
	pkgPath := fr.Pkg
	fn := eng.funcIndex[pkgPath][fr.Contract.Key]
	if fn == nil {
		return "not-attempted"
	}
	model := st.FailRes.Model
	val := func(term string) (string, bool) { v, ok := model[term]; return v, ok }
	qual := relQual(fn)
	var sb strings.Builder
	sb.WriteString("package " + fn.Pkg.Pkg.Name() + "\n\nimport (\n\t\"testing\"\n\t\"fmt\"\n\t\"math/big\"\n\t\"reflect\"\n")
	imports := map[string]bool{}
	body := &strings.Builder{}
	// parameters
	var argNames []string
	cannot := ""
	byPrefix := map[string][]fieldVar{}
	for _, fv := range o.Fields {
		root := fv.Path
		if i := strings.Index(root, "."); i >= 0 {
			root = root[:i]
		}
		byPrefix[root] = append(byPrefix[root], fv)
	}
	for _, p := range fn.Params {
		name := p.Name()
		if name == "_" || name == "" {
			name = fmt.Sprintf("arg%d", len(argNames))
		}
		argNames = append(argNames, name)
		t := p.Type()
		collectImports(t, fn.Pkg.Pkg, imports)
		ts := types.TypeString(t, qual)
		var paramTerm string
		for _, mv := range o.Vars {
			if mv.Name == p.Name() {
				paramTerm = mv.Term
			}
		}
		switch u := t.Underlying().(type) {
		case *types.Basic:
			mv, ok := val(paramTerm)
			if !ok {
				fmt.Fprintf(body, "\tvar %s %s\n", name, ts)
				continue
			}
			if u.Info()&types.IsBoolean != 0 {
				fmt.Fprintf(body, "\tvar %s %s = %s\n", name, ts, strings.TrimSpace(mv))
			} else if n, ok := parseModelInt(mv); ok && u.Info()&types.IsInteger != 0 {
				fmt.Fprintf(body, "\tvar %s %s = %s\n", name, ts, goIntLit(n, t))
			} else {
				fmt.Fprintf(body, "\tvar %s %s\n", name, ts)
			}
		case *types.Pointer:
			if structOf(u.Elem()) == nil {
				cannot = "pointer parameter to non-struct"
				break
			}
			fmt.Fprintf(body, "\t%s := new(%s)\n", name, types.TypeString(u.Elem(), qual))
			fvs := byPrefix[p.Name()]
			sort.SliceStable(fvs, func(i, j int) bool { return strings.Count(fvs[i].Path, ".") < strings.Count(fvs[j].Path, ".") })
			for _, fv := range fvs {
				mv, ok := val(fv.Term)
				if !ok {
					continue
				}
				path := name + strings.TrimPrefix(fv.Path, p.Name())
				switch fv.Kind {
				case "scalar":
					b := fv.Ty.Underlying().(*types.Basic)
					if b.Info()&types.IsBoolean != 0 {
						fmt.Fprintf(body, "\t%s = %s\n", path, strings.TrimSpace(mv))
					} else if n, ok := parseModelInt(mv); ok && b.Info()&types.IsInteger != 0 {
						collectImports(fv.Ty, fn.Pkg.Pkg, imports)
						fmt.Fprintf(body, "\t%s = %s(%s)\n", path, types.TypeString(fv.Ty, qual), goIntLit(n, fv.Ty))
					}
				case "ptr":
					if !isNilRefModel(mv) {
						pt := fv.Ty.Underlying().(*types.Pointer)
						if structOf(pt.Elem()) != nil && exportedOrLocal(pt.Elem(), fn.Pkg.Pkg) {
							collectImports(pt.Elem(), fn.Pkg.Pkg, imports)
							fmt.Fprintf(body, "\t%s = new(%s)\n", path, types.TypeString(pt.Elem(), qual))
						}
					}
				case "iface-ref":
					if !isNilRefModel(mv) {
						pt := fv.Ty.(*types.Pointer)
						fmt.Fprintf(body, "\t%s = new(%s)\n", strings.TrimSuffix(path, "#ref"), types.TypeString(pt.Elem(), qual))
					}
				case "slice-len":
					if n, ok := parseModelInt(mv); ok && n.IsInt64() && n.Int64() >= 0 && n.Int64() <= 1<<16 {
						collectImports(fv.Ty, fn.Pkg.Pkg, imports)
						fmt.Fprintf(body, "\t%s = make(%s, %d)\n", path, types.TypeString(fv.Ty, qual), n.Int64())
					} else if ok {
						cannot = "model asks for a huge slice"
					}
				}
			}
		case *types.Slice:
			var lenTerm string
			for _, mv := range o.Vars {
				if mv.Name == p.Name()+"#len" {
					lenTerm = mv.Term
				}
			}
			n := int64(0)
			if mv, ok := val(lenTerm); ok {
				if bn, ok := parseModelInt(mv); ok {
					if !bn.IsInt64() || bn.Int64() > 1<<16 {
						cannot = "model asks for a huge slice"
						break
					}
					n = bn.Int64()
				}
			}
			fmt.Fprintf(body, "\t%s := make(%s, %d)\n", name, ts, n)
			// element values for byte slices
			if isByteSlice(t) {
				for i := int64(0); i < n && i < 64; i++ {
					for _, mv := range o.Vars {
						if mv.Name == fmt.Sprintf("%s[%d]", p.Name(), i) {
							if v, ok := val(mv.Term); ok {
								if bn, ok := parseModelInt(v); ok {
									fmt.Fprintf(body, "\t%s[%d] = %d\n", name, i, bn.Int64()&0xff)
								}
							}
						}
					}
				}
			}
		default:
			fmt.Fprintf(body, "\tvar %s %s\n", name, ts)
		}
	}
	if cannot != "" {
		rf.Replay["reason"] = cannot
		return "not-attempted"
	}
	// clause
	var check string
	g := &dynCompiler{eng: eng, pkg: fn.Pkg.Pkg, pc: eng.db.Pkgs[pkgPath], subst: map[string]string{}, dynSub: map[string]bool{}, lets: fr.Contract.Lets}
	nres := fn.Signature.Results().Len()
	var resNames []string
	for i := 0; i < nres; i++ {
		resNames = append(resNames, fmt.Sprintf("r%d", i))
		g.subst[fmt.Sprintf("result%d", i)] = fmt.Sprintf("r%d", i)
		if n := fn.Signature.Results().At(i).Name(); n != "" && n != "_" {
			g.subst[n] = fmt.Sprintf("r%d", i)
		}
	}
	if nres == 1 {
		g.subst["result"] = "r0"
	}
	if fn.Signature.Recv() != nil && fr.Contract.RecvName != "" {
		g.subst[fr.Contract.RecvName] = argNames[0]
	}
	for i, p := range fn.Params {
		if p.Name() != argNames[i] {
			g.subst[p.Name()] = argNames[i]
		}
	}
	if kind == "post" {
		var cl *Clause
		for i, e := range fr.Contract.Ensures {
			lb := e.Label
			if lb == "" {
				lb = fmt.Sprintf("%d", i)
			}
			if lb == o.Label {
				cl = e
			}
		}
		if cl == nil {
			return "not-attempted"
		}
		check = "verifBool(" + g.expr(cl.Expr) + ")"
		if g.failed != "" {
			rf.Replay["reason"] = g.failed
			return "not-attempted"
		}
	}
	for i, oe := range g.olds {
		fmt.Fprintf(body, "\told%d := %s; _ = old%d\n", i, oe, i)
	}
	// call
	callee := fn.Name()
	args := argNames
	if fn.Signature.Recv() != nil {
		callee = argNames[0] + "." + fn.Name()
		args = argNames[1:]
	}
	call := callee + "(" + strings.Join(args, ", ") + ")"
	if fn.Signature.Variadic() {
		call = callee + "(" + strings.Join(args, ", ") + "...)"
	}
	if strings.HasPrefix(kind, "safe:") {
		fmt.Fprintf(body, "\tdefer func() {\n\t\tif r := recover(); r != nil {\n\t\t\tt.Fatalf(\"VERIF-REPLAY-CONFIRMED: panic: %%v\", r)\n\t\t}\n\t}()\n")
		if nres > 0 {
			fmt.Fprintf(body, "\t%s = %s\n", strings.Repeat("_, ", nres-1)+"_", call)
		} else {
			fmt.Fprintf(body, "\t%s\n", call)
		}
	} else {
		if nres > 0 {
			fmt.Fprintf(body, "\t%s := %s\n", strings.Join(resNames, ", "), call)
			for _, r := range resNames {
				fmt.Fprintf(body, "\t_ = %s\n", r)
			}
		} else {
			fmt.Fprintf(body, "\t%s\n", call)
		}
		fmt.Fprintf(body, "\tif !(%s) {\n\t\tt.Fatalf(\"VERIF-REPLAY-CONFIRMED: clause violated\")\n\t}\n", check)
	}
	var imps []string
	for im := range imports {
		imps = append(imps, im)
	}
	sort.Strings(imps)
	for _, im := range imps {
		sb.WriteString("\t\"" + im + "\"\n")
	}
	sb.WriteString(")\n")
	sb.WriteString(dynReplayHelpers)
	if strings.Contains(replayHelpers, "verifErrCode") && !imports[eng.modPath+"/internal/qerr"] {
		// helper needs qerr + errors: emit separately below
	}
	sb.WriteString("\nfunc TestVerifReplay(t *testing.T) {\n")
	sb.WriteString(body.String())
	sb.WriteString("}\n")
	src := sb.String()
	src = fixHelperImports(src, eng, fn.Pkg.Pkg)
	rf.Replay["test_source"] = src
	return runReplayTest(eng, rf, pkgPath, fn.Pkg.Pkg.Name(), src)
}

func errCodeExpr(eng *Engine, pkg *types.Package, imports map[string]bool) string {
	return "verifErrCode(e)"
}

// fixHelperImports adds the imports the helpers need (errors, qerr) and defines verifErrCode.
func fixHelperImports(src string, eng *Engine, pkg *types.Package) string {
	qerrPath := eng.modPath + "/internal/qerr"
	helper := "\nfunc verifErrCode(e error) uint64 {\n\tvar te *qerr.TransportError\n\tif errors.As(e, &te) { return uint64(te.ErrorCode) }\n\treturn ^uint64(0)\n}\n"
	if pkg.Path() == qerrPath {
		helper = strings.ReplaceAll(helper, "qerr.", "")
	}
	add := "\t\"errors\"\n"
	if pkg.Path() != qerrPath && !strings.Contains(src, "\""+qerrPath+"\"") {
		add += "\t\"" + qerrPath + "\"\n"
	}
	if !strings.Contains(src, "\t\"errors\"\n") {
		src = strings.Replace(src, "import (\n", "import (\n"+add, 1)
	} else if pkg.Path() != qerrPath && !strings.Contains(src, "\""+qerrPath+"\"") {
		src = strings.Replace(src, "import (\n", "import (\n\t\""+qerrPath+"\"\n", 1)
	}
	return src + helper
}

func exportedOrLocal(t types.Type, pkg *types.Package) bool {
	n := namedOf(t)
	if n == nil {
		return false
	}
	return n.Obj().Pkg() == pkg || n.Obj().Exported()
}

func collectImports(t types.Type, self *types.Package, imports map[string]bool) {
	var walk func(t types.Type, d int)
	walk = func(t types.Type, d int) {
		if d > 4 {
			return
		}
		t = types.Unalias(t)
		switch x := t.(type) {
		case *types.Named:
			if p := x.Obj().Pkg(); p != nil && p != self {
				imports[p.Path()] = true
			}
		case *types.Pointer:
			walk(x.Elem(), d+1)
		case *types.Slice:
			walk(x.Elem(), d+1)
		case *types.Array:
			walk(x.Elem(), d+1)
		case *types.Map:
			walk(x.Key(), d+1)
			walk(x.Elem(), d+1)
		}
	}
	walk(t, 0)
}

func runReplayTest(eng *Engine, rf *ReplayFile, pkgPath, pkgName, src string) string {
	dir, err := os.MkdirTemp("", "govc-replay")
	if err != nil {
		return "not-attempted"
	}
	defer os.RemoveAll(dir)
	rel := strings.TrimPrefix(strings.TrimPrefix(pkgPath, eng.modPath), "/")
	pkgDir := filepath.Join(eng.repo, rel)
	testFile := filepath.Join(dir, "zz_verif_replay_test.go")
	os.WriteFile(testFile, []byte(src), 0o644)
	ov := map[string]map[string]string{"Replace": {filepath.Join(pkgDir, "zz_verif_replay_test.go"): testFile}}
	ovb, _ := json.Marshal(ov)
	ovFile := filepath.Join(dir, "ov.json")
	os.WriteFile(ovFile, ovb, 0o644)
	target := "./" + rel
	if rel == "" {
		target = "."
	}
	cmd := exec.Command("go", "test", "-overlay", ovFile, "-vet=off", "-timeout", "60s", "-count=1", "-run", "^TestVerifReplay$", target)
	cmd.Dir = eng.repo
	cmd.Env = append(loaderEnv(), "GOEXPERIMENT=synctest")
	done := make(chan struct{})
	var out []byte
	go func() { out, _ = cmd.CombinedOutput(); close(done) }()
	select {
	case <-done:
	case <-time.After(180 * time.Second):
		if cmd.Process != nil {
			cmd.Process.Kill()
		}
		rf.Replay["go_test_output"] = "timeout"
		return "not-reproduced"
	}
	rf.Replay["go_test_output"] = truncate(string(out), 4000)
	if strings.Contains(string(out), "VERIF-REPLAY-CONFIRMED") {
		return "confirmed"
	}
	if strings.Contains(string(out), "[build failed]") || strings.Contains(string(out), "cannot use") || strings.Contains(string(out), "undefined:") {
		return "not-attempted"
	}
	return "not-reproduced"
}

var _ = token.NoPos
