package main

// Evaluation of contract expressions (Go expression syntax + spec built-ins) to SMT.

import (
	"fmt"
	"go/ast"
	"go/constant"
	"go/token"
	"go/types"
	"math/big"
	"strconv"
	"strings"
)

type SpecEnv struct {
	c     *Ctx
	s     *State
	fr    *Frame
	vars  map[string]Val
	bound map[string]Val
	heap  map[string]string // nil = current heap; otherwise a snapshot (missing names = entry version)
	old   map[string]string // heap for old(); nil = old() not allowed
	oldIsEntry bool
	useSrc bool
	pkg   *types.Package
	pc    *PkgContracts
	depth int
	lets  []*LetDef // macros: evaluated at use in the current environment
	litType types.Type // bv mode: type given to untyped integer literals (nil = mathematical Int)
	freshLo, freshHi string // isfresh(x): freshLo <= rootid(x) [< freshHi]; default alloc0 / unbounded
	loopCallBase int        // calledinloop counts call-log entries from this index on
	// calleeCalls: non-nil while a callee's contract is evaluated at a call site: called("X") then denotes the number
	// of calls the CALLEE makes (a fresh non-negative integer per name, constrained by the callee's clauses), which
	// the caller adds to its own count afterwards
	calleeCalls map[string]string
	localsInPost bool // evaluating the function's own ensures at a return: unknown identifiers may denote locals
	// prev(e) in a bodyensures clause: e at the start of the iteration that just ended
	prevSrc  map[string]Val
	prevHeap map[string]string
	srcOverride map[string]Val
}

type specError struct{ msg string }

func specFail(format string, a ...interface{}) { panic(specError{fmt.Sprintf(format, a...)}) }

// GhostSetV: a ghost set value; Term has sort (Array K Bool).
type GhostSetV struct {
	Term string
	Elem string // element type text
	Ty   types.Type
}

func (g GhostSetV) Type() types.Type { return g.Ty }

// MapV: contract-level view of a map (reference).

func (c *Ctx) newSpecEnv(s *State, fr *Frame) *SpecEnv {
	e := &SpecEnv{c: c, s: s, fr: fr, vars: map[string]Val{}, bound: map[string]Val{}, pc: c.pc}
	if fr != nil && fr.fn.Pkg != nil {
		e.pkg = fr.fn.Pkg.Pkg
	} else if c.fn != nil && c.fn.Pkg != nil {
		e.pkg = c.fn.Pkg.Pkg
	}
	if c.fc != nil {
		e.lets = c.fc.Lets
	}
	if fr != nil && fr.fn != c.fn && fr.fn.Pkg != nil {
		if pc := c.eng.db.Pkgs[fr.fn.Pkg.Pkg.Path()]; pc != nil {
			e.pc = pc
		}
	}
	return e
}

func (e *SpecEnv) sub() *SpecEnv {
	n := *e
	n.bound = map[string]Val{}
	for k, v := range e.bound {
		n.bound[k] = v
	}
	return &n
}

func (e *SpecEnv) evalBool(x ast.Expr) string {
	v := e.eval(x)
	sc, ok := v.(Scalar)
	if !ok || sc.S != SBool {
		specFail("expected boolean expression, got %T (%s)", v, exprString(x))
	}
	return sc.T
}

func exprString(x ast.Expr) string {
	var sb strings.Builder
	writeExpr(&sb, x)
	return sb.String()
}

func writeExpr(sb *strings.Builder, x ast.Expr) {
	switch v := x.(type) {
	case *ast.Ident:
		sb.WriteString(v.Name)
	case *ast.BasicLit:
		sb.WriteString(v.Value)
	case *ast.SelectorExpr:
		writeExpr(sb, v.X)
		sb.WriteString("." + v.Sel.Name)
	case *ast.CallExpr:
		writeExpr(sb, v.Fun)
		sb.WriteString("(")
		for i, a := range v.Args {
			if i > 0 {
				sb.WriteString(", ")
			}
			writeExpr(sb, a)
		}
		sb.WriteString(")")
	case *ast.BinaryExpr:
		writeExpr(sb, v.X)
		sb.WriteString(" " + v.Op.String() + " ")
		writeExpr(sb, v.Y)
	case *ast.UnaryExpr:
		sb.WriteString(v.Op.String())
		writeExpr(sb, v.X)
	case *ast.ParenExpr:
		sb.WriteString("(")
		writeExpr(sb, v.X)
		sb.WriteString(")")
	case *ast.IndexExpr:
		writeExpr(sb, v.X)
		sb.WriteString("[")
		writeExpr(sb, v.Index)
		sb.WriteString("]")
	case *ast.StarExpr:
		sb.WriteString("*")
		writeExpr(sb, v.X)
	default:
		sb.WriteString(fmt.Sprintf("<%T>", x))
	}
}

var untypedInt = types.Typ[types.UntypedInt]

func (e *SpecEnv) intLit(v *big.Int) Scalar {
	return Scalar{smtInt(v), SInt, untypedInt}
}

func isUntyped(t types.Type) bool {
	b, ok := t.(*types.Basic)
	return ok && b.Info()&types.IsUntyped != 0
}

func (e *SpecEnv) constToVal(cv constant.Value, t types.Type) Val {
	switch cv.Kind() {
	case constant.Int:
		v, _ := new(big.Int).SetString(cv.ExactString(), 10)
		if isUntyped(t) || t == nil {
			return e.intLit(v)
		}
		if ii, ok := isIntType(t); ok {
			return Scalar{e.c.ar.lit(v, ii), e.c.ar.intSort(ii), t}
		}
		if isFloatType(t) {
			return Scalar{realLit(cv), SReal, t}
		}
		return e.intLit(v)
	case constant.Bool:
		if constant.BoolVal(cv) {
			return Scalar{"true", SBool, types.Typ[types.Bool]}
		}
		return Scalar{"false", SBool, types.Typ[types.Bool]}
	case constant.Float:
		return Scalar{realLit(cv), SReal, types.Typ[types.Float64]}
	case constant.String:
		return Scalar{e.c.strLit(constant.StringVal(cv)), SStr, types.Typ[types.String]}
	}
	specFail("unsupported constant %v", cv)
	return nil
}

func (e *SpecEnv) lookupPkg(name string) *types.Package {
	if e.pkg != nil {
		if e.pkg.Name() == name {
			return e.pkg
		}
		for _, imp := range e.pkg.Imports() {
			if imp.Name() == name {
				return imp
			}
		}
	}
	return e.c.eng.pkgByName(name)
}

func (e *SpecEnv) eval(x ast.Expr) Val {
	switch v := x.(type) {
	case *ast.ParenExpr:
		return e.eval(v.X)
	case *ast.BasicLit:
		switch v.Kind {
		case token.INT:
			n, ok := new(big.Int).SetString(strings.ReplaceAll(v.Value, "_", ""), 0)
			if !ok {
				specFail("bad int literal %s", v.Value)
			}
			if e.c.ar.bv && e.litType != nil {
				if ii, ok := isIntType(e.litType); ok {
					return Scalar{e.c.ar.lit(n, ii), e.c.ar.intSort(ii), e.litType}
				}
			}
			return e.intLit(n)
		case token.FLOAT:
			cv := constant.MakeFromLiteral(v.Value, token.FLOAT, 0)
			return Scalar{realLit(cv), SReal, types.Typ[types.UntypedFloat]}
		case token.STRING:
			sv, _ := strconv.Unquote(v.Value)
			return Scalar{e.c.strLit(sv), SStr, types.Typ[types.String]}
		case token.CHAR:
			cv := constant.MakeFromLiteral(v.Value, token.CHAR, 0)
			n, _ := constant.Int64Val(cv)
			return e.intLit(big.NewInt(n))
		}
	case *ast.Ident:
		return e.ident(v.Name)
	case *ast.SelectorExpr:
		if id, ok := v.X.(*ast.Ident); ok {
			if _, isVar := e.tryIdent(id.Name); !isVar {
				if p := e.lookupPkg(id.Name); p != nil {
					return e.pkgMember(p, v.Sel.Name)
				}
			}
		}
		base := e.eval(v.X)
		return e.selectField(base, v.Sel.Name)
	case *ast.StarExpr:
		p := e.eval(v.X)
		pt, ok := p.Type().Underlying().(*types.Pointer)
		if !ok {
			specFail("deref of non-pointer %s", exprString(v.X))
		}
		return e.c.loadAt(e.s, e.heap, p, pt.Elem())
	case *ast.UnaryExpr:
		a := e.eval(v.X)
		switch v.Op {
		case token.NOT:
			return Scalar{simplifyNot(a.(Scalar).T), SBool, types.Typ[types.Bool]}
		case token.SUB:
			sc := a.(Scalar)
			if sc.S == SReal {
				return Scalar{fmt.Sprintf("(- %s)", sc.T), SReal, sc.Ty}
			}
			if e.c.ar.bv && sc.S != SInt {
				return Scalar{fmt.Sprintf("(bvneg %s)", sc.T), sc.S, sc.Ty}
			}
			if n, ok := isNumeral(sc.T); ok {
				return Scalar{smtInt(new(big.Int).Neg(n)), SInt, sc.Ty}
			}
			return Scalar{fmt.Sprintf("(- %s)", sc.T), SInt, sc.Ty}
		case token.XOR:
			sc := a.(Scalar)
			ii, ok := isIntType(sc.Ty)
			if !ok || sc.S == SInt && !e.c.ar.bv {
				specFail("bitwise complement needs a typed bit-vector operand")
			}
			return Scalar{e.c.ar.not(sc.T, ii), sc.S, sc.Ty}
		case token.AND:
			// address-of: &x.f
			return e.addrOf(v.X)
		}
	case *ast.BinaryExpr:
		return e.binary(v)
	case *ast.IndexExpr:
		return e.indexExpr(v)
	case *ast.SliceExpr:
		return e.sliceExpr(v)
	case *ast.CallExpr:
		return e.callExpr(v)
	}
	specFail("unsupported contract expression %s (%T)", exprString(x), x)
	return nil
}

func (e *SpecEnv) tryIdent(name string) (Val, bool) {
	if v, ok := e.bound[name]; ok {
		return v, true
	}
	if e.srcOverride != nil {
		if v, ok := e.srcOverride[name]; ok {
			return v, true
		}
	}
	if e.useSrc && e.fr != nil {
		if v, ok := e.fr.src[name]; ok {
			return e.derefSrc(v), true
		}
	}
	if v, ok := e.vars[name]; ok {
		return e.derefSrc(v), true
	}
	for _, l := range e.lets {
		if l.Name == name {
			if e.depth > 40 {
				specFail("let recursion")
			}
			n := e.sub()
			n.depth = e.depth + 1
			return n.eval(l.Expr), true
		}
	}
	if !e.useSrc && e.fr != nil {
		// fall back to source names even outside loops (named results, locals in assertions)
		if v, ok := e.fr.src[name]; ok && e.allowSrcFallback() {
			return e.derefSrc(v), true
		}
	}
	return nil, false
}

// allowSrcFallback: postconditions may name a local variable of the function (its value at the return being checked);
// parameters, results and lets take precedence, so this only gives meaning to otherwise unknown identifiers.
func (e *SpecEnv) allowSrcFallback() bool { return e.localsInPost }

func (e *SpecEnv) derefSrc(v Val) Val {
	if sa, ok := v.(SrcAddr); ok {
		pt := sa.Ty.Underlying().(*types.Pointer)
		return e.c.loadAt(e.s, e.heap, sa.P, pt.Elem())
	}
	return v
}

func (e *SpecEnv) ident(name string) Val {
	switch name {
	case "true":
		return Scalar{"true", SBool, types.Typ[types.Bool]}
	case "false":
		return Scalar{"false", SBool, types.Typ[types.Bool]}
	case "nil":
		return Scalar{"rnil", SRef, types.Typ[types.UntypedNil]}
	}
	if v, ok := e.tryIdent(name); ok {
		return v
	}
	// contract constants (this package, then all)
	if e.pc != nil {
		if ce, ok := e.pc.Consts[name]; ok {
			return e.eval(ce)
		}
	}
	if e.pkg != nil {
		if obj := e.pkg.Scope().Lookup(name); obj != nil {
			return e.objVal(obj)
		}
	}
	for _, pc := range e.c.eng.db.Pkgs {
		if ce, ok := pc.Consts[name]; ok {
			return e.eval(ce)
		}
	}
	specFail("unknown identifier %q", name)
	return nil
}

func (e *SpecEnv) objVal(obj types.Object) Val {
	switch o := obj.(type) {
	case *types.Const:
		return e.constToVal(o.Val(), o.Type())
	case *types.Var:
		// package-level variable
		g := e.c.eng.globalFor(o)
		if g != nil {
			p := e.c.globalAddr(g)
			v := e.c.loadAt(e.s, e.heap, p, o.Type())
			if iv, ok := v.(IfaceV); ok && g.Pkg != nil && (!strings.HasPrefix(g.Pkg.Pkg.Path(), e.c.eng.modPath) || isErrVarName(g.Name())) {
				e.c.errVarFacts(e.s, g, iv)
			}
			return v
		}
	}
	specFail("cannot use %s in a contract", obj.Name())
	return nil
}

func (e *SpecEnv) pkgMember(p *types.Package, name string) Val {
	if pc := e.c.eng.db.Pkgs[p.Path()]; pc != nil {
		if ce, ok := pc.Consts[name]; ok {
			return e.eval(ce)
		}
	}
	obj := p.Scope().Lookup(name)
	if obj == nil {
		specFail("unknown %s.%s", p.Name(), name)
	}
	return e.objVal(obj)
}

// selectField evaluates base.name (struct field, promoted field, or ghost field).
func (e *SpecEnv) selectField(base Val, name string) Val {
	t := base.Type()
	if t == nil {
		specFail("selector .%s on untyped value", name)
	}
	// ghost fields
	if gf := e.c.eng.ghostField(t, name); gf != nil {
		ref := e.refOf(base)
		return e.c.ghostRead(e.s, e.heap, gf, ref)
	}
	obj, index, _ := types.LookupFieldOrMethod(t, true, e.pkg, name)
	if obj == nil {
		// try with the defining package of the type (unexported fields of other packages)
		if n := namedOf(t); n != nil && n.Obj().Pkg() != nil {
			obj, index, _ = types.LookupFieldOrMethod(t, true, n.Obj().Pkg(), name)
		}
	}
	fld, ok := obj.(*types.Var)
	if !ok || !fld.IsField() {
		specFail("no field %s in %s", name, t)
	}
	cur := base
	for _, i := range index {
		cur = e.fieldStep(cur, i)
	}
	return cur
}

func namedOf(t types.Type) *types.Named {
	t = types.Unalias(t)
	if p, ok := t.(*types.Pointer); ok {
		t = types.Unalias(p.Elem())
	}
	n, _ := t.(*types.Named)
	return n
}

func (e *SpecEnv) refOf(v Val) string {
	switch x := v.(type) {
	case Scalar:
		if x.S == SRef {
			return x.T
		}
	}
	specFail("expected a reference, got %T", v)
	return ""
}

// fieldStep selects field i of a struct value or of the struct pointed to by cur.
func (e *SpecEnv) fieldStep(cur Val, i int) Val {
	switch x := cur.(type) {
	case StructV:
		return x.F[i]
	case Scalar:
		pt, ok := x.Ty.Underlying().(*types.Pointer)
		if !ok || x.S != SRef {
			specFail("field selection on non-pointer scalar of type %s", x.Ty)
		}
		st := pt.Elem()
		fa := e.c.fieldAddr(x.T, st, i)
		ft := structOf(st).Field(i).Type()
		if isAggregate(ft) {
			// arrays of scalars are values (so that == compares contents); structs stay references to the embedded aggregate
			if at, ok := ft.Underlying().(*types.Array); ok {
				if _, scalar := e.c.ar.sortOfScalar(at.Elem()); scalar {
					return e.c.loadAt(e.s, e.heap, fa, ft)
				}
			}
			return fa // keep as reference to the embedded aggregate (typed pointer)
		}
		v := e.c.loadAt(e.s, e.heap, fa, ft)
		// machine-range fact of the loaded integer (any stored value of the field's type satisfies it)
		if sc, ok := v.(Scalar); ok && !strings.Contains(sc.T, "!q") {
			if ii, ok := isIntType(sc.Ty); ok {
				e.c.assume(e.s, e.c.ar.rangeAssume(sc.T, ii))
				if max, ok := e.c.fieldBound(typeName(st), structOf(st).Field(i).Name()); ok {
					e.c.assume(e.s, e.c.ar.cmp(token.LEQ, sc.T, e.c.ar.litI(max, ii), ii))
				}
			}
		}
		if sl, ok := v.(SliceV); ok && !strings.Contains(sl.Arr+sl.Len, "!q") {
			e.c.assume(e.s, e.c.sliceWF(sl))
		}
		return v
	}
	specFail("field selection on %T", cur)
	return nil
}

func (e *SpecEnv) addrOf(x ast.Expr) Val {
	switch v := x.(type) {
	case *ast.SelectorExpr:
		base := e.eval(v.X)
		t := base.Type()
		obj, index, _ := types.LookupFieldOrMethod(t, true, e.pkg, v.Sel.Name)
		if obj == nil {
			if n := namedOf(t); n != nil && n.Obj().Pkg() != nil {
				obj, index, _ = types.LookupFieldOrMethod(t, true, n.Obj().Pkg(), v.Sel.Name)
			}
		}
		if obj == nil {
			specFail("no field %s", v.Sel.Name)
		}
		cur := base
		for k, i := range index {
			if k == len(index)-1 {
				sc := cur.(Scalar)
				st := sc.Ty.Underlying().(*types.Pointer).Elem()
				return e.c.fieldAddr(sc.T, st, i)
			}
			cur = e.fieldStep(cur, i)
		}
	}
	specFail("unsupported address-of %s", exprString(x))
	return nil
}

// ---------- arithmetic in specs ----------

func (e *SpecEnv) coerce(a, b Scalar) (Scalar, Scalar) {
	// untyped constants adopt the type (and sort) of the other operand
	if a.S == b.S {
		if isUntyped(a.Ty) {
			a.Ty = b.Ty
		} else if isUntyped(b.Ty) {
			b.Ty = a.Ty
		}
		return a, b
	}
	fix := func(k, other Scalar) Scalar {
		if n, ok := isNumeral(k.T); ok && k.S == SInt {
			if other.S == SReal {
				return Scalar{smtInt(n) + ".0", SReal, other.Ty}
			}
			if ii, ok2 := isIntType(other.Ty); ok2 && strings.HasPrefix(string(other.S), "(_ BitVec") {
				return Scalar{e.c.ar.lit(n, ii), other.S, other.Ty}
			}
		}
		if k.S == SInt && other.S == SReal {
			return Scalar{fmt.Sprintf("(to_real %s)", k.T), SReal, other.Ty}
		}
		return k
	}
	a2 := fix(a, b)
	b2 := fix(b, a2)
	if a2.S != b2.S {
		specFail("operands of different sorts: %s (%s) vs %s (%s)", a.T, a.S, b.T, b.S)
	}
	return a2, b2
}

func (e *SpecEnv) binary(v *ast.BinaryExpr) Val {
	boolT := types.Typ[types.Bool]
	switch v.Op {
	case token.LAND:
		if e.litType != nil {
			e = e.sub()
			e.litType = nil
		}
		a, b := e.evalBool(v.X), e.evalBool(v.Y)
		return Scalar{mkAnd(a, b), SBool, boolT}
	case token.LOR:
		if e.litType != nil {
			e = e.sub()
			e.litType = nil
		}
		a, b := e.evalBool(v.X), e.evalBool(v.Y)
		return Scalar{mkOr(a, b), SBool, boolT}
	}
	outer := e
	if e.litType != nil {
		e = e.sub()
		e.litType = nil
	}
	av, bv := e.eval(v.X), e.eval(v.Y)
	// lastresult/callarg of a callee that was not called on this path: the comparison says nothing (a fresh boolean)
	for _, o := range []Val{av, bv} {
		if sc, ok := o.(Scalar); ok && strings.HasPrefix(sc.T, "nocall!") {
			switch v.Op {
			case token.EQL, token.NEQ, token.LSS, token.LEQ, token.GTR, token.GEQ:
				return Scalar{e.c.freshConst(e.s, "nocallcmp", SBool), SBool, boolT}
			}
		}
	}
	if v.Op == token.EQL || v.Op == token.NEQ {
		// a struct- or array-typed location evaluates to its ADDRESS: comparing two of them would compare addresses, not values
		for _, o := range []Val{av, bv} {
			if sc, ok := o.(Scalar); ok && sc.S == SRef && sc.Ty != nil {
				switch sc.Ty.Underlying().(type) {
				case *types.Struct, *types.Array:
					specFail("comparison of struct/array values is not supported in contracts (compare the fields): %s", exprString(v))
				}
			}
		}
	}
	if outer.litType != nil && e.c.ar.bv {
		// both operands untyped: literals take the hinted type
		as, aok := av.(Scalar)
		bs, bok := bv.(Scalar)
		if aok && bok && as.S == SInt && bs.S == SInt {
			av, bv = outer.evalHinted(v.X), outer.evalHinted(v.Y)
		}
	}
	if e.c.ar.bv && v.Op != token.SHL && v.Op != token.SHR {
		as, aok := av.(Scalar)
		bs, bok := bv.(Scalar)
		if aok && bok {
			isBV := func(s Scalar) bool { return strings.HasPrefix(string(s.S), "(_ BitVec") }
			_, anum := isNumeral(as.T)
			_, bnum := isNumeral(bs.T)
			if as.S == SInt && !anum && isBV(bs) {
				n := e.sub()
				n.litType = bs.Ty
				av = n.eval(v.X)
			} else if bs.S == SInt && !bnum && isBV(as) {
				n := e.sub()
				n.litType = as.Ty
				bv = n.eval(v.Y)
			}
		}
	}
	if v.Op == token.EQL || v.Op == token.NEQ {
		as, aok := av.(Scalar)
		bs, bok := bv.(Scalar)
		var eq string
		if aok && bok && as.S != SRef && bs.S != SRef {
			as, bs = e.coerce(as, bs)
			eq = fmt.Sprintf("(= %s %s)", as.T, bs.T)
			if as.T == bs.T {
				eq = "true"
			}
		} else {
			eq = e.c.valEq(e.s, av, bv, av.Type())
		}
		if v.Op == token.NEQ {
			eq = simplifyNot(eq)
		}
		return Scalar{eq, SBool, boolT}
	}
	as, aok := av.(Scalar)
	bs, bok := bv.(Scalar)
	if !aok || !bok {
		specFail("binary %s on non-scalars in %s", v.Op, exprString(v))
	}
	if v.Op != token.SHL && v.Op != token.SHR {
		as, bs = e.coerce(as, bs)
	}
	rt := as.Ty
	if isUntyped(rt) {
		rt = bs.Ty
	}
	if as.S == SReal {
		switch v.Op {
		case token.ADD, token.SUB, token.MUL, token.QUO:
			op := map[token.Token]string{token.ADD: "+", token.SUB: "-", token.MUL: "*", token.QUO: "/"}[v.Op]
			return Scalar{fmt.Sprintf("(%s %s %s)", op, as.T, bs.T), SReal, rt}
		case token.LSS, token.LEQ, token.GTR, token.GEQ:
			return Scalar{fmt.Sprintf("(%s %s %s)", v.Op.String(), as.T, bs.T), SBool, boolT}
		}
		specFail("unsupported real op %s", v.Op)
	}
	if as.S == SInt {
		// mathematical integers
		switch v.Op {
		case token.ADD:
			return Scalar{mathAdd(as.T, bs.T), SInt, rt}
		case token.SUB:
			return Scalar{mathSub(as.T, bs.T), SInt, rt}
		case token.MUL:
			return Scalar{mathMul(as.T, bs.T), SInt, rt}
		case token.QUO:
			// truncated division on mathematical ints
			return Scalar{fmt.Sprintf("(let ((qa %s) (qb %s)) (ite (>= qa 0) (ite (> qb 0) (div qa qb) (- (div qa (- qb)))) (ite (> qb 0) (- (div (- qa) qb)) (div (- qa) (- qb)))))", as.T, bs.T), SInt, rt}
		case token.REM:
			return Scalar{fmt.Sprintf("(let ((qa %s) (qb %s)) (ite (>= qa 0) (mod qa (abs qb)) (- (mod (- qa) (abs qb)))))", as.T, bs.T), SInt, rt}
		case token.LSS, token.LEQ, token.GTR, token.GEQ:
			return Scalar{fmt.Sprintf("(%s %s %s)", v.Op.String(), as.T, bs.T), SBool, boolT}
		case token.SHL:
			if k, ok := isNumeral(bs.T); ok {
				return Scalar{mathMul(as.T, pow2(int(k.Int64())).String()), SInt, rt}
			}
		case token.SHR:
			if k, ok := isNumeral(bs.T); ok {
				return Scalar{fmt.Sprintf("(div %s %s)", as.T, pow2(int(k.Int64())).String()), SInt, rt}
			}
		case token.AND:
			if k, ok := isNumeral(bs.T); ok {
				return Scalar{(&arith{}).andConst(as.T, k, intInfo{64, false}), SInt, rt}
			}
		}
		specFail("unsupported integer op %s in %s", v.Op, exprString(v))
	}
	// bit-vectors
	ii, ok := isIntType(rt)
	if !ok {
		specFail("bit-vector op on non-int type %s", rt)
	}
	switch v.Op {
	case token.LSS, token.LEQ, token.GTR, token.GEQ:
		return Scalar{e.c.ar.cmp(v.Op, as.T, bs.T, ii), SBool, boolT}
	}
	iy := ii
	if v.Op == token.SHL || v.Op == token.SHR {
		if n, ok := isNumeral(bs.T); ok && bs.S == SInt {
			bs = Scalar{e.c.ar.lit(n, ii), as.S, as.Ty}
		} else if y, ok := isIntType(bs.Ty); ok {
			iy = y
		}
	}
	t, _ := e.c.ar.binop(v.Op, as.T, bs.T, ii, iy)
	return Scalar{t, as.S, rt}
}

func (e *SpecEnv) evalHinted(x ast.Expr) Val {
	// evaluate with the literal-type hint kept (used when no operand fixes the type)
	if bl, ok := x.(*ast.BasicLit); ok {
		return e.eval(bl)
	}
	if p, ok := x.(*ast.ParenExpr); ok {
		return e.evalHinted(p.X)
	}
	n := e.sub()
	return n.evalKeep(x)
}

func (e *SpecEnv) evalKeep(x ast.Expr) Val { return e.eval(x) }

func mkAnd(a, b string) string {
	if a == "true" {
		return b
	}
	if b == "true" {
		return a
	}
	if a == "false" || b == "false" {
		return "false"
	}
	return fmt.Sprintf("(and %s %s)", a, b)
}

func mkOr(a, b string) string {
	if a == "false" {
		return b
	}
	if b == "false" {
		return a
	}
	if a == "true" || b == "true" {
		return "true"
	}
	return fmt.Sprintf("(or %s %s)", a, b)
}

func mathAdd(a, b string) string {
	x, ok1 := isNumeral(a)
	y, ok2 := isNumeral(b)
	if ok1 && ok2 {
		return smtInt(new(big.Int).Add(x, y))
	}
	return fmt.Sprintf("(+ %s %s)", a, b)
}
func mathSub(a, b string) string {
	x, ok1 := isNumeral(a)
	y, ok2 := isNumeral(b)
	if ok1 && ok2 {
		return smtInt(new(big.Int).Sub(x, y))
	}
	return fmt.Sprintf("(- %s %s)", a, b)
}
func mathMul(a, b string) string {
	x, ok1 := isNumeral(a)
	y, ok2 := isNumeral(b)
	if ok1 && ok2 {
		return smtInt(new(big.Int).Mul(x, y))
	}
	return fmt.Sprintf("(* %s %s)", a, b)
}

// ---------- indexing ----------

func (e *SpecEnv) idxTerm(v Val) string {
	sc, ok := v.(Scalar)
	if !ok {
		specFail("index must be an integer")
	}
	if e.c.ar.bv {
		if sc.S == SInt {
			if n, ok := isNumeral(sc.T); ok {
				return e.c.ar.lit(n, intInfo{64, true})
			}
			specFail("mathematical index in bv mode")
		}
		ii, _ := isIntType(sc.Ty)
		return e.c.ar.convBV(sc.T, ii, intInfo{64, true})
	}
	return sc.T
}

func (e *SpecEnv) indexExpr(v *ast.IndexExpr) Val {
	base := e.eval(v.X)
	switch b := base.(type) {
	case SliceV:
		i := e.idxTerm(e.eval(v.Index))
		el := b.Ty.Underlying().(*types.Slice).Elem()
		p := e.c.elemAddr(e.s, b.Arr, e.c.elemIdx(b.Off, i), el)
		return e.c.loadAt(e.s, e.heap, p, el) // value semantics (struct elements are loaded field by field)
	case ArrayV:
		i := e.idxTerm(e.eval(v.Index))
		el := b.Ty.Underlying().(*types.Array).Elem()
		sort, _ := e.c.ar.sortOfScalar(el)
		return Scalar{fmt.Sprintf("(select %s %s)", b.Term, i), sort, el}
	case GhostSetV:
		k := e.eval(v.Index).(Scalar)
		return Scalar{fmt.Sprintf("(select %s %s)", b.Term, k.T), SBool, types.Typ[types.Bool]}
	case GhostMapV:
		k := e.eval(v.Index).(Scalar)
		return Scalar{fmt.Sprintf("(select %s %s)", b.Term, k.T), b.VS, b.VTy}
	case Scalar:
		if mt, ok := b.Ty.Underlying().(*types.Map); ok {
			k := e.eval(v.Index)
			val, _ := e.c.mapRead(e.s, e.heap, b.T, mt, k)
			return val
		}
		if pt, ok := b.Ty.Underlying().(*types.Pointer); ok {
			if at, ok := pt.Elem().Underlying().(*types.Array); ok {
				i := e.idxTerm(e.eval(v.Index))
				p := e.c.elemAddr(e.s, b.T, i, at.Elem())
				if isAggregate(at.Elem()) {
					return p
				}
				return e.c.loadAt(e.s, e.heap, p, at.Elem())
			}
		}
	}
	specFail("cannot index %s", exprString(v.X))
	return nil
}

func (e *SpecEnv) sliceExpr(v *ast.SliceExpr) Val {
	base, ok := e.eval(v.X).(SliceV)
	if !ok {
		specFail("slice expression on non-slice")
	}
	lo := e.c.ar.idx(0)
	hi := base.Len
	if v.Low != nil {
		lo = e.idxTerm(e.eval(v.Low))
	}
	if v.High != nil {
		hi = e.idxTerm(e.eval(v.High))
	}
	return SliceV{base.Arr, e.c.idxAdd(base.Off, lo), e.c.idxSub(hi, lo), e.c.idxSub(base.Cap, lo), base.Ty}
}

// ---------- calls ----------

func (e *SpecEnv) callExpr(v *ast.CallExpr) Val {
	boolT := types.Typ[types.Bool]
	if id, ok := v.Fun.(*ast.Ident); ok {
		switch id.Name {
		case "prev":
			if e.prevSrc == nil {
				specFail("prev() is only allowed in bodyensures clauses")
			}
			n := e.sub()
			n.heap = e.prevHeap
			n.srcOverride = e.prevSrc
			return n.eval(v.Args[0])
		case "old":
			if e.old == nil {
				specFail("old() not allowed here")
			}
			n := e.sub()
			n.heap = e.old
			n.useSrc = false
			return n.eval(v.Args[0])
		case "implies":
			a, b := e.evalBool(v.Args[0]), e.evalBool(v.Args[1])
			if a == "true" {
				return Scalar{b, SBool, boolT}
			}
			if a == "false" || b == "true" {
				return Scalar{"true", SBool, boolT}
			}
			return Scalar{fmt.Sprintf("(=> %s %s)", a, b), SBool, boolT}
		case "iff":
			a, b := e.evalBool(v.Args[0]), e.evalBool(v.Args[1])
			return Scalar{fmt.Sprintf("(= %s %s)", a, b), SBool, boolT}
		case "ite":
			ce := e
			if e.litType != nil {
				ce = e.sub()
				ce.litType = nil
			}
			cnd := ce.evalBool(v.Args[0])
			a, b := e.eval(v.Args[1]), e.eval(v.Args[2])
			if as, ok := a.(Scalar); ok {
				if bs, ok := b.(Scalar); ok && as.S != SRef {
					as, bs = e.coerce(as, bs)
					a, b = as, bs
				}
			}
			return e.c.iteVal(e.s, cnd, a, b)
		case "forall", "exists":
			return e.quant(id.Name, v.Args)
		case "forall2":
			// forall2(j, k, lo, hi, body): for all lo <= j < k < hi
			return e.quant2(v.Args)
		case "len":
			lv := e.eval(v.Args[0])
			if sc, ok := lv.(Scalar); ok && strings.HasPrefix(sc.T, "nocall!") {
				// length of an argument/result of a callee that was not called on this path: unconstrained (keeps the "nocall"
				// marker so that a comparison with it says nothing)
				return Scalar{e.c.freshConst(e.s, "nocall", e.c.ar.idxSort()), e.c.ar.idxSort(), types.Typ[types.Int]}
			}
			return e.lenOf(lv)
		case "cap":
			sl, ok := e.eval(v.Args[0]).(SliceV)
			if !ok {
				specFail("cap of non-slice")
			}
			return Scalar{sl.Cap, e.c.ar.idxSort(), types.Typ[types.Int]}
		case "min", "max":
			a, b := e.eval(v.Args[0]).(Scalar), e.eval(v.Args[1]).(Scalar)
			a, b = e.coerce(a, b)
			op := token.LEQ
			if id.Name == "max" {
				op = token.GEQ
			}
			var cnd string
			if a.S == SInt || a.S == SReal {
				cnd = fmt.Sprintf("(%s %s %s)", op.String(), a.T, b.T)
			} else {
				ii, _ := isIntType(a.Ty)
				cnd = e.c.ar.cmp(op, a.T, b.T, ii)
			}
			return Scalar{fmt.Sprintf("(ite %s %s %s)", cnd, a.T, b.T), a.S, a.Ty}
		case "iserr":
			// iserr(e, code): e is a *qerr.TransportError with the given ErrorCode
			iv := e.ifaceArg(v.Args[0])
			code := e.eval(v.Args[1]).(Scalar)
			tt := e.c.eng.transportErrorPtr()
			tag := e.c.typeID(tt)
			ec := e.c.fieldRead(e.s, e.heap, typeName(tt.Elem()), "ErrorCode", "", e.c.ar.intSort(intInfo{64, false}), iv.PRef)
			cs := code
			if e.c.ar.bv && code.S == SInt {
				n, _ := isNumeral(code.T)
				cs = Scalar{e.c.ar.lit(n, intInfo{64, false}), bvSort(64), code.Ty}
			}
			return Scalar{fmt.Sprintf("(and (= %s %d) (= %s %s))", iv.Tag, tag, ec, cs.T), SBool, boolT}
		case "istransporterr":
			iv := e.ifaceArg(v.Args[0])
			tt := e.c.eng.transportErrorPtr()
			return Scalar{fmt.Sprintf("(= %s %d)", iv.Tag, e.c.typeID(tt)), SBool, boolT}
		case "errcode":
			iv := e.ifaceArg(v.Args[0])
			tt := e.c.eng.transportErrorPtr()
			ec := e.c.fieldRead(e.s, e.heap, typeName(tt.Elem()), "ErrorCode", "", e.c.ar.intSort(intInfo{64, false}), iv.PRef)
			return Scalar{ec, e.c.ar.intSort(intInfo{64, false}), types.Typ[types.Uint64]}
		case "typeis":
			iv := e.ifaceArg(v.Args[0])
			t := e.resolveType(v.Args[1])
			if types.IsInterface(t) {
				return Scalar{e.c.implementsTerm(iv.Tag, t), SBool, boolT}
			}
			return Scalar{fmt.Sprintf("(= %s %d)", iv.Tag, e.c.typeID(t)), SBool, boolT}
		case "dyn":
			// dyn(x, T): payload of interface x viewed as T
			iv := e.ifaceArg(v.Args[0])
			t := e.resolveType(v.Args[1])
			// a devirtualised interface always holds its concrete type (the directive's stated assumption)
			if iv.Ty != nil {
				if u, ok := iv.Ty.Underlying().(*types.Interface); ok && u.NumMethods() > 0 {
					if _, ct := e.c.eng.devirt(iv.Ty, firstMethod(u)); ct != nil && !strings.Contains(iv.Tag, "!q") {
						e.c.assume(e.s, fmt.Sprintf("(or (= %s 0) (= %s %d))", iv.Tag, iv.Tag, e.c.typeID(ct)))
					}
				}
			}
			return e.c.unbox(e.s, e.heap, iv, t)
		case "isfresh":
			a := e.eval(v.Args[0])
			var r string
			switch x := a.(type) {
			case Scalar:
				r = x.T
			case SliceV:
				r = x.Arr
			case IfaceV:
				r = x.PRef
			default:
				specFail("isfresh of %T", a)
			}
			lo := "alloc0"
			if e.freshLo != "" {
				lo = e.freshLo
			}
			if e.freshHi != "" {
				return Scalar{fmt.Sprintf("(and (>= (rootid %s) %s) (< (rootid %s) %s))", r, lo, r, e.freshHi), SBool, boolT}
			}
			return Scalar{fmt.Sprintf("(>= (rootid %s) %s)", r, lo), SBool, boolT}
		case "alias":
			// alias(s, t, k): s is t[k : k+len(s)] (same backing array)
			av0, bv0 := e.eval(v.Args[0]), e.eval(v.Args[1])
			a, okA := av0.(SliceV)
			b, okB := bv0.(SliceV)
			if !okA || !okB {
				for _, o := range []Val{av0, bv0} {
					if sc, ok := o.(Scalar); ok && strings.HasPrefix(sc.T, "nocall!") {
						return Scalar{e.c.freshConst(e.s, "nocallcmp", SBool), SBool, boolT} // callee not called on this path
					}
				}
				specFail("alias: both arguments must be slices")
			}
			k := e.idxTerm(e.eval(v.Args[2]))
			return Scalar{fmt.Sprintf("(and (= %s %s) (= %s %s))", a.Arr, b.Arr, a.Off, e.c.idxAdd(b.Off, k)), SBool, boolT}
		case "samebacking":
			// samebacking(s, t): slices s and t share one backing array (at any offsets), e.g. t is a re-slice of s
			a, okA := e.eval(v.Args[0]).(SliceV)
			b, okB := e.eval(v.Args[1]).(SliceV)
			if !okA || !okB {
				specFail("samebacking: both arguments must be slices")
			}
			return Scalar{fmt.Sprintf("(= %s %s)", a.Arr, b.Arr), SBool, boolT}
		case "sameroot":
			// sameroot(x, y): x and y live in the same allocation (e.g. a slice and a re-slice of it at any offset)
			rootOf := func(a Val) string {
				switch x := a.(type) {
				case Scalar:
					return x.T
				case SliceV:
					return x.Arr
				case IfaceV:
					return x.PRef
				}
				specFail("sameroot of %T", a)
				return ""
			}
			ra, rb := rootOf(e.eval(v.Args[0])), rootOf(e.eval(v.Args[1]))
			return Scalar{fmt.Sprintf("(= (rootid %s) (rootid %s))", ra, rb), SBool, boolT}
		case "separate":
			// separate(x, y): x and y (slices, pointers or interfaces holding pointers) live in different allocations, so
			// nothing reachable by indexing/field selection from one overlaps the other
			root := func(a Val) string {
				switch x := a.(type) {
				case Scalar:
					return x.T
				case SliceV:
					return x.Arr
				case IfaceV:
					return x.PRef
				}
				specFail("separate of %T", a)
				return ""
			}
			ra, rb := root(e.eval(v.Args[0])), root(e.eval(v.Args[1]))
			return Scalar{fmt.Sprintf("(not (= (rootid %s) (rootid %s)))", ra, rb), SBool, boolT}
		case "samearray":
			a, okA := e.eval(v.Args[0]).(SliceV)
			b, okB := e.eval(v.Args[1]).(SliceV)
			if !okA || !okB {
				specFail("samearray: both arguments must be slices")
			}
			_, _ = a, b
			return Scalar{fmt.Sprintf("(and (= %s %s) (= %s %s))", a.Arr, b.Arr, a.Off, b.Off), SBool, boolT}
		case "samearray_unused":
			a, b := e.eval(v.Args[0]).(SliceV), e.eval(v.Args[1]).(SliceV)
			return Scalar{fmt.Sprintf("(and (= %s %s) (= %s %s))", a.Arr, b.Arr, a.Off, b.Off), SBool, boolT}
		case "in":
			x := e.eval(v.Args[0]).(Scalar)
			g, ok := e.eval(v.Args[1]).(GhostSetV)
			if !ok {
				specFail("in(x, S): S must be a ghost set")
			}
			return Scalar{fmt.Sprintf("(select %s %s)", g.Term, x.T), SBool, boolT}
		case "add":
			g, ok := e.eval(v.Args[0]).(GhostSetV)
			if !ok {
				specFail("add(S, x): S must be a ghost set")
			}
			x := e.eval(v.Args[1]).(Scalar)
			g.Term = fmt.Sprintf("(store %s %s true)", g.Term, x.T)
			return g
		case "remove":
			g, ok := e.eval(v.Args[0]).(GhostSetV)
			if !ok {
				specFail("remove(S, x): S must be a ghost set")
			}
			x := e.eval(v.Args[1]).(Scalar)
			g.Term = fmt.Sprintf("(store %s %s false)", g.Term, x.T)
			return g
		case "seteq":
			a, _ := e.eval(v.Args[0]).(GhostSetV)
			b, _ := e.eval(v.Args[1]).(GhostSetV)
			return Scalar{fmt.Sprintf("(= %s %s)", a.Term, b.Term), SBool, boolT}
		case "has":
			// has(m, k): key present in map
			m := e.eval(v.Args[0]).(Scalar)
			mt, ok := m.Ty.Underlying().(*types.Map)
			if !ok {
				specFail("has(m,k): m must be a map")
			}
			k := e.eval(v.Args[1])
			_, present := e.c.mapRead(e.s, e.heap, m.T, mt, k)
			return Scalar{present, SBool, boolT}
		case "tomath":
			// tomath(x): mathematical value of an integer (bv mode: bv2nat for unsigned)
			a := e.eval(v.Args[0]).(Scalar)
			if a.S == SInt {
				return a
			}
			ii, _ := isIntType(a.Ty)
			if ii.signed {
				specFail("tomath of signed bit-vector")
			}
			return Scalar{fmt.Sprintf("(bv2nat %s)", a.T), SInt, untypedInt}
		case "toreal":
			a := e.eval(v.Args[0]).(Scalar)
			if a.S == SReal {
				return a
			}
			return Scalar{fmt.Sprintf("(to_real %s)", a.T), SReal, types.Typ[types.Float64]}
		case "strlen":
			a := e.eval(v.Args[0]).(Scalar)
			return Scalar{fmt.Sprintf("(strlen %s)", a.T), e.c.ar.idxSort(), types.Typ[types.Int]}
		case "uf":
			// uf("name", args...): uninterpreted Int function (for abstract predicates use ufb)
			return e.uninterp(v.Args, SInt)
		case "ufb":
			return e.uninterp(v.Args, SBool)
		case "ufi":
			// uninterpreted function with result in the index sort (Go type int)
			r := e.uninterp(v.Args, e.c.ar.idxSort()).(Scalar)
			r.Ty = types.Typ[types.Int]
			return r
		case "trig", "atrig":
			// atrig(s, k) is trig(s, k) plus: the enclosing quantifier ranges over the absolute index off(s)+k
			// trig(s, k): an arithmetic-free term identifying element k of slice s, for use as a quantifier trigger
			sl, ok := e.eval(v.Args[0]).(SliceV)
			if !ok {
				specFail("trig(s, k): s must be a slice")
			}
			i := e.idxTerm(e.eval(v.Args[1]))
			el := sl.Ty.Underlying().(*types.Slice).Elem()
			pv := e.c.elemAddr(e.s, sl.Arr, e.c.elemIdx(sl.Off, i), el)
			if sc, ok := pv.(Scalar); ok {
				return Scalar{sc.T, SRef, types.Typ[types.UnsafePointer]}
			}
			lv := e.c.loadAt(e.s, e.heap, pv, el)
			switch x := lv.(type) {
			case Scalar:
				return x
			case IfaceV:
				return Scalar{x.Tag, SInt, types.Typ[types.Int]}
			case SliceV:
				return Scalar{x.Arr, SRef, types.Typ[types.UnsafePointer]}
			}
			specFail("trig: unsupported element type")
		case "lastresultb":
			// boolean variant of lastresult
			name, _ := strconv.Unquote(v.Args[0].(*ast.BasicLit).Value)
			if r, ok := e.s.lastRes[name]; ok {
				return r
			}
			return Scalar{e.c.freshConst(e.s, "nocall", SBool), SBool, types.Typ[types.Bool]}
		case "aftercall":
			// aftercall("callee", k, e): e evaluated in the heap as the k-th (0-based) direct call of callee left it
			// (unconstrained if there was no such call on this path)
			name, _ := strconv.Unquote(v.Args[0].(*ast.BasicLit).Value)
			lit, ok := v.Args[1].(*ast.BasicLit)
			if !ok || len(v.Args) != 3 {
				specFail("aftercall(\"callee\", k, expr): call index must be a literal")
			}
			k, _ := strconv.Atoi(lit.Value)
			if !e.c.afterCallNames[name] {
				specFail("aftercall: %s is not recorded (internal: contract text scan)", name)
			}
			hs := e.s.callHeaps[name]
			if k < 0 || k >= len(hs) {
				return Scalar{e.c.freshConst(e.s, "nocall", e.c.ar.idxSort()), e.c.ar.idxSort(), types.Typ[types.Int]}
			}
			n := e.sub()
			n.heap = hs[k]
			n.useSrc = false
			return n.eval(v.Args[2])
		case "lastarg", "callarg":
			// lastarg("callee", i): argument i (receiver = 0) of the most recent direct call of callee on this path
			// callarg("callee", k, i): argument i of the k-th (0-based) direct call
			name, _ := strconv.Unquote(v.Args[0].(*ast.BasicLit).Value)
			calls := e.s.callArgs[name]
			k := len(calls) - 1
			ai := 1
			if id.Name == "callarg" {
				lit, ok := v.Args[1].(*ast.BasicLit)
				if !ok {
					specFail("callarg: call index must be a literal")
				}
				k, _ = strconv.Atoi(lit.Value)
				ai = 2
			}
			lit, ok := v.Args[ai].(*ast.BasicLit)
			if !ok {
				specFail("%s: argument index must be a literal", id.Name)
			}
			i, _ := strconv.Atoi(lit.Value)
			if k >= 0 && k < len(calls) && i >= 0 && i < len(calls[k]) {
				return calls[k][i]
			}
			return Scalar{e.c.freshConst(e.s, "nocall", e.c.ar.idxSort()), e.c.ar.idxSort(), types.Typ[types.Int]}
		case "lastresult":
			// lastresult("callee"): result of the most recent call of callee on this path (unconstrained if none)
			name, _ := strconv.Unquote(v.Args[0].(*ast.BasicLit).Value)
			if r, ok := e.s.lastRes[name]; ok {
				// lastresult("callee", i): component i of a multi-valued result
				if tv, isT := r.(TupleV); isT && len(v.Args) == 2 {
					if lit, ok := v.Args[1].(*ast.BasicLit); ok {
						if i, err := strconv.Atoi(lit.Value); err == nil && i >= 0 && i < len(tv.E) {
							return tv.E[i]
						}
					}
					specFail("lastresult: bad component index")
				}
				return r
			}
			return Scalar{e.c.freshConst(e.s, "nocall", e.c.ar.idxSort()), e.c.ar.idxSort(), types.Typ[types.Int]}
		case "callindex":
			// callindex("name", k): position in this path's call log of the k-th (0-based) call logged under name, -1 if there
			// is none — lets a clause state the ORDER of two calls (the log of a path is a concrete sequence)
			name, _ := strconv.Unquote(v.Args[0].(*ast.BasicLit).Value)
			k := 0
			if len(v.Args) > 1 {
				if lit, ok := v.Args[1].(*ast.BasicLit); ok {
					k, _ = strconv.Atoi(lit.Value)
				}
			}
			pos := -1
			seen := 0
			for i, l := range e.s.calllog {
				if l == name {
					if seen == k {
						pos = i
						break
					}
					seen++
				}
			}
			return e.intLit(big.NewInt(int64(pos)))
		case "calledinloop":
			// calledinloop("name"): calls logged since the loop head was entered (one iteration, at a back edge)
			name, _ := strconv.Unquote(v.Args[0].(*ast.BasicLit).Value)
			n := 0
			for i, l := range e.s.calllog {
				if i >= e.loopCallBase && l == name {
					n++
				}
			}
			return e.intLit(big.NewInt(int64(n)))
		case "called":
			// called("name"): number of calls logged to callee name on this path
			name, _ := strconv.Unquote(v.Args[0].(*ast.BasicLit).Value)
			if e.calleeCalls != nil {
				t, ok := e.calleeCalls[name]
				if !ok {
					t = e.c.freshConst(e.s, "calls", e.c.ar.idxSort())
					e.c.assume(e.s, e.c.idxCmp(token.GEQ, t, e.c.ar.idx(0)))
					e.calleeCalls[name] = t
				}
				return Scalar{t, e.c.ar.idxSort(), types.Typ[types.Int]}
			}
			n := 0
			for _, l := range e.s.calllog {
				if l == name {
					n++
				}
			}
			if extra := e.s.callExtra[name]; len(extra) > 0 {
				t := e.c.ar.idx(int64(n))
				for _, x := range extra {
					t = e.c.idxAdd(t, x)
				}
				return Scalar{t, e.c.ar.idxSort(), types.Typ[types.Int]}
			}
			return e.intLit(big.NewInt(int64(n)))
		}
		// type conversion with a basic or local named type?
		if t := e.tryResolveType(v.Fun); t != nil && len(v.Args) == 1 {
			return e.convertTo(e.eval(v.Args[0]), t)
		}
		// spec function
		if sf := e.findSpec(id.Name, ""); sf != nil {
			return e.applySpec(sf, nil, v.Args)
		}
		specFail("unknown function %s in contract", id.Name)
	}
	if sel, ok := v.Fun.(*ast.SelectorExpr); ok {
		// pkg.Type(x) conversion or pkg.spec(...)
		if id, ok := sel.X.(*ast.Ident); ok {
			if _, isVar := e.tryIdent(id.Name); !isVar {
				if p := e.lookupPkg(id.Name); p != nil {
					if pc := e.c.eng.db.Pkgs[p.Path()]; pc != nil {
						if sf, ok := pc.Specs[sel.Sel.Name]; ok {
							return e.applySpec(sf, nil, v.Args)
						}
					}
					if t := e.tryResolveType(v.Fun); t != nil && len(v.Args) == 1 {
						return e.convertTo(e.eval(v.Args[0]), t)
					}
					specFail("unknown %s.%s", id.Name, sel.Sel.Name)
				}
			}
		}
		// receiver pred: x.pred(args)
		recv := e.eval(sel.X)
		if n := namedOf(recv.Type()); n != nil {
			if sf := e.findSpec(sel.Sel.Name, n.Obj().Name()); sf != nil {
				return e.applySpec(sf, recv, v.Args)
			}
		}
		specFail("unknown method %s in contract (only preds/specs are callable)", exprString(v.Fun))
	}
	if _, ok := v.Fun.(*ast.ParenExpr); ok {
		if t := e.tryResolveType(v.Fun); t != nil && len(v.Args) == 1 {
			return e.convertTo(e.eval(v.Args[0]), t)
		}
	}
	specFail("unsupported call %s", exprString(v))
	return nil
}

func (e *SpecEnv) uninterp(args []ast.Expr, res Sort) Val {
	name, _ := strconv.Unquote(args[0].(*ast.BasicLit).Value)
	var ts []string
	var sorts []string
	for _, a := range args[1:] {
		switch x := e.eval(a).(type) {
		case Scalar:
			if e.c.ar.bv && x.S == SInt {
				if n, ok := isNumeral(x.T); ok {
					x = Scalar{e.c.ar.lit(n, intInfo{64, true}), e.c.ar.idxSort(), types.Typ[types.Int]}
				}
			}
			ts = append(ts, x.T)
			sorts = append(sorts, string(x.S))
		case IfaceV:
			ts = append(ts, x.Tag, x.PRef, x.PInt)
			sorts = append(sorts, "Int", "Ref", "Int")
		default:
			specFail("uf argument %T", x)
		}
	}
	fn := "uf!" + sanitize(name)
	e.c.declGlobal("uf:"+fn, fmt.Sprintf("(declare-fun %s (%s) %s)", fn, strings.Join(sorts, " "), res))
	t := fn
	if len(ts) > 0 {
		t = "(" + fn + " " + strings.Join(ts, " ") + ")"
	}
	ty := types.Type(types.Typ[types.Int])
	if res == SBool {
		ty = types.Typ[types.Bool]
	}
	return Scalar{t, res, ty}
}

func (e *SpecEnv) ifaceArg(x ast.Expr) IfaceV {
	v := e.eval(x)
	iv, ok := v.(IfaceV)
	if !ok {
		specFail("%s is not an interface value", exprString(x))
	}
	return iv
}

func (e *SpecEnv) lenOf(a Val) Val {
	intT := types.Typ[types.Int]
	switch x := a.(type) {
	case SliceV:
		return Scalar{x.Len, e.c.ar.idxSort(), intT}
	case ArrayV:
		return Scalar{e.c.ar.idx(x.Ty.Underlying().(*types.Array).Len()), e.c.ar.idxSort(), intT}
	case Scalar:
		if x.S == SStr {
			return Scalar{e.c.strLen(x.T), e.c.ar.idxSort(), intT}
		}
		if mt, ok := x.Ty.Underlying().(*types.Map); ok {
			return Scalar{e.c.mapCard(e.s, e.heap, x.T, mt), e.c.ar.idxSort(), intT}
		}
		if pt, ok := x.Ty.Underlying().(*types.Pointer); ok {
			if at, ok := pt.Elem().Underlying().(*types.Array); ok {
				return Scalar{e.c.ar.idx(at.Len()), e.c.ar.idxSort(), intT}
			}
		}
	}
	specFail("len of %T", a)
	return nil
}

func (e *SpecEnv) findSpec(name, recv string) *SpecFunc {
	key := name
	if recv != "" {
		key = recv + "." + name
	}
	if e.pc != nil {
		if sf, ok := e.pc.Specs[key]; ok {
			return sf
		}
	}
	for _, pc := range e.c.eng.db.Pkgs {
		if sf, ok := pc.Specs[key]; ok {
			return sf
		}
	}
	return nil
}

func (e *SpecEnv) applySpec(sf *SpecFunc, recv Val, args []ast.Expr) Val {
	if e.depth > 40 {
		specFail("spec recursion too deep in %s", sf.Name)
	}
	if len(args) != len(sf.Params) {
		specFail("spec %s: wrong number of arguments", sf.Name)
	}
	n := e.sub()
	n.depth = e.depth + 1
	// evaluate args in the caller's environment, bind in a clean bound-map
	nb := map[string]Val{}
	for i, a := range args {
		nb[sf.Params[i]] = e.eval(a)
	}
	if recv != nil {
		nb[sf.RecvName] = recv
	}
	n.bound = nb
	n.useSrc = false
	n.lets = nil
	n.vars = map[string]Val{}
	if pc := e.c.eng.db.Pkgs[sf.Pkg]; pc != nil {
		n.pc = pc
		if p := e.c.eng.typesPkg(sf.Pkg); p != nil {
			n.pkg = p
		}
	}
	return n.eval(sf.Body)
}

func (e *SpecEnv) quant(kind string, args []ast.Expr) Val {
	boolT := types.Typ[types.Bool]
	if len(args) < 2 {
		specFail("%s needs at least (var, body)", kind)
	}
	id, ok := args[0].(*ast.Ident)
	if !ok {
		specFail("%s: first argument must be an identifier", kind)
	}
	e.c.nfresh++
	qn := fmt.Sprintf("%s!q%d", id.Name, e.c.nfresh)
	n := e.sub()
	sort := e.c.ar.idxSort()
	n.bound[id.Name] = Scalar{qn, sort, types.Typ[types.Int]}
	var body, guard string
	var trigArgs []ast.Expr
	if len(args) >= 5 {
		// trig(s, k) on the bound variable: quantify over the absolute index a = off(s) + k instead, so that the
		// trigger (mkelem arr a) / (select .. a) matches every element term of that array however its index was computed
		if off, ok := e.absIndexOffset(args[4], id.Name); ok && off != e.c.ar.idx(0) {
			n.bound[id.Name] = Scalar{e.c.idxSub(qn, off), sort, types.Typ[types.Int]}
		}
	}
	if len(args) >= 4 {
		lo := n.idxTerm(n.eval(args[1]))
		hi := n.idxTerm(n.eval(args[2]))
		kv := n.bound[id.Name].(Scalar).T
		guard = fmt.Sprintf("(and %s %s)", e.c.idxCmp(token.LEQ, lo, kv), e.c.idxCmp(token.LSS, kv, hi))
		body = n.evalBool(args[3])
		trigArgs = args[4:]
	} else if len(args) == 3 {
		// forall(x, T, body): quantify over a type: T may be ref / int
		t := e.tryResolveType(args[1])
		if t != nil {
			s2, ok := e.c.ar.sortOfScalar(t)
			if !ok {
				specFail("quantification over non-scalar type")
			}
			sort = s2
			n.bound[id.Name] = Scalar{qn, sort, t}
			if ii, ok := isIntType(t); ok {
				guard = e.c.ar.rangeAssume(qn, ii)
			}
			body = n.evalBool(args[2])
		} else {
			specFail("%s(x, T, body): unknown type", kind)
		}
	} else {
		body = n.evalBool(args[1])
	}
	pat := ""
	if len(trigArgs) > 0 {
		var ps []string
		for _, t := range trigArgs {
			switch x := n.eval(t).(type) {
			case Scalar:
				ps = append(ps, x.T)
			default:
				specFail("trigger must be scalar")
			}
		}
		// (a term with an if-then-else is not a legal pattern: the solver then chooses its own)
		if !strings.Contains(strings.Join(ps, " "), "(ite ") {
			pat = " :pattern (" + strings.Join(ps, " ") + ")"
		}
	}
	var t string
	if kind == "forall" {
		inner := body
		if guard != "" {
			inner = fmt.Sprintf("(=> %s %s)", guard, body)
		}
		if pat != "" {
			inner = fmt.Sprintf("(! %s%s)", inner, pat)
		}
		t = fmt.Sprintf("(forall ((%s %s)) %s)", qn, sort, inner)
	} else {
		inner := body
		if guard != "" {
			inner = fmt.Sprintf("(and %s %s)", guard, body)
		}
		if pat != "" {
			inner = fmt.Sprintf("(! %s%s)", inner, pat)
		}
		t = fmt.Sprintf("(exists ((%s %s)) %s)", qn, sort, inner)
	}
	return Scalar{t, SBool, boolT}
}

// absIndexOffset: if t is the call trig(S, v) with v the given bound variable, returns the offset term of slice S.
func (e *SpecEnv) absIndexOffset(t ast.Expr, v string) (off string, ok bool) {
	call, isCall := t.(*ast.CallExpr)
	if !isCall {
		return "", false
	}
	fn, isId := call.Fun.(*ast.Ident)
	if isId && fn.Name == "old" && len(call.Args) == 1 && e.old != nil {
		n := e.sub()
		n.heap = e.old
		n.useSrc = false
		return n.absIndexOffset(call.Args[0], v)
	}
	if !isId || fn.Name != "atrig" || len(call.Args) != 2 {
		return "", false
	}
	kid, isK := call.Args[1].(*ast.Ident)
	if !isK || kid.Name != v {
		return "", false
	}
	defer func() {
		if r := recover(); r != nil {
			if _, isSpec := r.(specError); isSpec {
				ok = false
				return
			}
			panic(r)
		}
	}()
	sl, isSl := e.eval(call.Args[0]).(SliceV)
	if !isSl {
		return "", false
	}
	return sl.Off, true
}

func (e *SpecEnv) quant2(args []ast.Expr) Val {
	if len(args) < 5 {
		specFail("forall2(j, k, lo, hi, body [, triggers...])")
	}
	j, ok1 := args[0].(*ast.Ident)
	k, ok2 := args[1].(*ast.Ident)
	if !ok1 || !ok2 {
		specFail("forall2: first two arguments must be identifiers")
	}
	e.c.nfresh++
	jn := fmt.Sprintf("%s!q%d", j.Name, e.c.nfresh)
	e.c.nfresh++
	kn := fmt.Sprintf("%s!q%d", k.Name, e.c.nfresh)
	n := e.sub()
	sort := e.c.ar.idxSort()
	n.bound[j.Name] = Scalar{jn, sort, types.Typ[types.Int]}
	n.bound[k.Name] = Scalar{kn, sort, types.Typ[types.Int]}
	if len(args) >= 7 {
		if off, ok := e.absIndexOffset(args[5], j.Name); ok && off != e.c.ar.idx(0) {
			n.bound[j.Name] = Scalar{e.c.idxSub(jn, off), sort, types.Typ[types.Int]}
		}
		if off, ok := e.absIndexOffset(args[6], k.Name); ok && off != e.c.ar.idx(0) {
			n.bound[k.Name] = Scalar{e.c.idxSub(kn, off), sort, types.Typ[types.Int]}
		}
	}
	lo := n.idxTerm(n.eval(args[2]))
	hi := n.idxTerm(n.eval(args[3]))
	jv, kv := n.bound[j.Name].(Scalar).T, n.bound[k.Name].(Scalar).T
	guard := fmt.Sprintf("(and %s %s %s)", e.c.idxCmp(token.LEQ, lo, jv), e.c.idxCmp(token.LSS, jv, kv), e.c.idxCmp(token.LSS, kv, hi))
	body := n.evalBool(args[4])
	inner := fmt.Sprintf("(=> %s %s)", guard, body)
	if len(args) > 5 {
		var ps []string
		for _, t := range args[5:] {
			sc, ok := n.eval(t).(Scalar)
			if !ok {
				specFail("trigger must be scalar")
			}
			ps = append(ps, sc.T)
		}
		inner = fmt.Sprintf("(! %s :pattern (%s))", inner, strings.Join(ps, " "))
	}
	return Scalar{fmt.Sprintf("(forall ((%s %s) (%s %s)) %s)", jn, sort, kn, sort, inner), SBool, types.Typ[types.Bool]}
}

// ---------- types ----------

func (e *SpecEnv) tryResolveType(x ast.Expr) (t types.Type) {
	defer func() {
		if r := recover(); r != nil {
			if _, ok := r.(specError); ok {
				t = nil
				return
			}
			panic(r)
		}
	}()
	return e.resolveType(x)
}

func (e *SpecEnv) resolveType(x ast.Expr) types.Type {
	switch v := x.(type) {
	case *ast.ParenExpr:
		return e.resolveType(v.X)
	case *ast.Ident:
		if obj := types.Universe.Lookup(v.Name); obj != nil {
			if tn, ok := obj.(*types.TypeName); ok {
				return tn.Type()
			}
		}
		if e.pkg != nil {
			if obj := e.pkg.Scope().Lookup(v.Name); obj != nil {
				if tn, ok := obj.(*types.TypeName); ok {
					return tn.Type()
				}
			}
		}
	case *ast.SelectorExpr:
		if id, ok := v.X.(*ast.Ident); ok {
			if p := e.lookupPkg(id.Name); p != nil {
				if obj := p.Scope().Lookup(v.Sel.Name); obj != nil {
					if tn, ok := obj.(*types.TypeName); ok {
						return tn.Type()
					}
				}
			}
		}
	case *ast.StarExpr:
		return types.NewPointer(e.resolveType(v.X))
	case *ast.ArrayType:
		if v.Len == nil {
			return types.NewSlice(e.resolveType(v.Elt))
		}
	}
	specFail("cannot resolve type %s", exprString(x))
	return nil
}

func (e *SpecEnv) convertTo(v Val, t types.Type) Val {
	sc, ok := v.(Scalar)
	if !ok {
		return retype(v, t)
	}
	if ti, ok := isIntType(t); ok {
		if sc.S == SInt {
			if e.c.ar.bv {
				if n, ok := isNumeral(sc.T); ok {
					return Scalar{e.c.ar.lit(n, ti), e.c.ar.intSort(ti), t}
				}
				return Scalar{fmt.Sprintf("((_ int2bv %d) %s)", ti.bits, sc.T), e.c.ar.intSort(ti), t}
			}
			return Scalar{sc.T, SInt, t} // mathematical: identity
		}
		if sc.S == SReal {
			return Scalar{fmt.Sprintf("(let ((fr %s)) (ite (>= fr 0.0) (to_int fr) (- (to_int (- fr)))))", sc.T), SInt, t}
		}
		if fi, ok := isIntType(sc.Ty); ok {
			return Scalar{e.c.ar.convBV(sc.T, fi, ti), e.c.ar.intSort(ti), t}
		}
	}
	if isFloatType(t) {
		if sc.S == SInt {
			return Scalar{fmt.Sprintf("(to_real %s)", sc.T), SReal, t}
		}
		if sc.S == SReal {
			return Scalar{sc.T, SReal, t}
		}
	}
	return retype(v, t)
}
