package main

import (
	"fmt"
	"go/ast"
	"go/token"
	"go/types"
	"sort"
	"strings"

	"golang.org/x/tools/go/ssa"
)

// ---------- modifies sets ----------

type modKind int

const (
	modSingle      modKind = iota // heap[ref]
	modElems                      // E-heap: whole inner array at arr; F-heap: all (mkelem arr _)
	modElemAt                     // E-heap[arr][idx]
	modWholeHeap                  // entire heap array
	modMapAll                     // map heaps at map ref
)

type modEntry struct {
	all    bool
	heap   string
	sort   string
	kind   modKind
	ref    string
	idx    string
	nested bool // modElems over struct elements: covers every (nested) field and inner array of the elements of ref
	// lo, hi: for modElems on a scalar element heap reached through a slice: only absolute indices in [lo, hi) =
	// [off, off+cap) may change (a slice cannot address anything before its offset or beyond its capacity)
	lo, hi string
}

// nestedElemPred: r lies in the same allocation as the backing array arr (its elements, their nested sub-objects and
// inner arrays). Backing arrays of slices are allocations of their own, so for them this is exactly "inside an element
// of arr"; for a slice of an array field it is coarser (the whole enclosing object) — used consistently on both sides
// of every contract, which keeps it sound.
func nestedElemPred(r, arr string) string {
	return fmt.Sprintf("(= (rootid %s) (rootid %s))", r, arr)
}

// allFieldEntries lists entries for every scalar component of every field (recursively) of the struct at ref.
func (c *Ctx) allFieldEntries(ref string, t types.Type, out *[]modEntry) {
	switch u := t.Underlying().(type) {
	case *types.Struct:
		for i := 0; i < u.NumFields(); i++ {
			ft := u.Field(i).Type()
			if isAggregate(ft) {
				c.allFieldEntries(fmt.Sprintf("(mksub %s %d)", ref, i), ft, out)
				continue
			}
			for _, cp := range c.ar.comps(ft) {
				name := fieldHeapName(typeName(t), u.Field(i).Name(), cp.Path)
				*out = append(*out, modEntry{heap: name, sort: fmt.Sprintf("(Array Ref %s)", cp.S), kind: modSingle, ref: ref})
			}
		}
		for _, gf := range c.eng.ghostFieldsOf(t) {
			*out = append(*out, modEntry{heap: ghostHeapName(gf), sort: c.ghostHeapSort(gf), kind: modSingle, ref: ref})
		}
	case *types.Array:
		if es, ok := c.ar.sortOfScalar(u.Elem()); ok {
			*out = append(*out, modEntry{heap: elemHeapName(u.Elem(), ""), sort: c.elemHeapSort(es), kind: modElems, ref: ref})
		}
	}
}

func (c *Ctx) evalMods(env *SpecEnv, cls []*Clause) []modEntry {
	var out []modEntry
	for _, cl := range cls {
		c.evalMod(env, cl.Expr, &out)
	}
	return out
}

func (c *Ctx) evalMod(env *SpecEnv, x ast.Expr, out *[]modEntry) {
	switch v := x.(type) {
	case *ast.ParenExpr:
		c.evalMod(env, v.X, out)
		return
	case *ast.SelectorExpr:
		if v.Sel.Name == "_all" {
			base := env.eval(v.X)
			switch b := base.(type) {
			case Scalar:
				pt, ok := b.Ty.Underlying().(*types.Pointer)
				if !ok {
					specFail("modifies %s: not a pointer", exprString(x))
				}
				c.allFieldEntries(b.T, pt.Elem(), out)
				return
			}
			specFail("modifies %s: unsupported base", exprString(x))
		}
		base := env.eval(v.X)
		t := base.Type()
		if gf := c.eng.ghostField(t, v.Sel.Name); gf != nil {
			*out = append(*out, modEntry{heap: ghostHeapName(gf), sort: c.ghostHeapSort(gf), kind: modSingle, ref: env.refOf(base)})
			return
		}
		obj, index, _ := types.LookupFieldOrMethod(t, true, env.pkg, v.Sel.Name)
		if obj == nil {
			if n := namedOf(t); n != nil && n.Obj().Pkg() != nil {
				obj, index, _ = types.LookupFieldOrMethod(t, true, n.Obj().Pkg(), v.Sel.Name)
			}
		}
		if obj == nil {
			specFail("modifies: no field %s in %s", v.Sel.Name, t)
		}
		cur := base
		for k, i := range index {
			sc, ok := cur.(Scalar)
			if !ok {
				specFail("modifies %s: path through non-pointer", exprString(x))
			}
			st := sc.Ty.Underlying().(*types.Pointer).Elem()
			if k == len(index)-1 {
				f := structOf(st).Field(i)
				if isAggregate(f.Type()) {
					c.allFieldEntries(fmt.Sprintf("(mksub %s %d)", sc.T, i), f.Type(), out)
				} else {
					for _, cp := range c.ar.comps(f.Type()) {
						*out = append(*out, modEntry{heap: fieldHeapName(typeName(st), f.Name(), cp.Path), sort: fmt.Sprintf("(Array Ref %s)", cp.S), kind: modSingle, ref: sc.T})
					}
				}
				return
			}
			cur = env.fieldStep(cur, i)
		}
	case *ast.SliceExpr:
		// x[:] — the elements addressable through slice x only: absolute indices [off, off+cap) of its backing array
		// (x[*] is the coarser "whole backing array"; both sides of a contract use the same reading)
		if v.Low != nil || v.Max != nil {
			specFail("modifies %s: only x[:] and x[:n] are supported", exprString(x))
		}
		b, ok := env.eval(v.X).(SliceV)
		if !ok {
			specFail("modifies %s: not a slice", exprString(x))
		}
		el := b.Ty.Underlying().(*types.Slice).Elem()
		n0 := len(*out)
		c.elemEntries(b.Arr, el, true, nil, out)
		if !isAggregate(el) {
			for k := n0; k < len(*out); k++ {
				(*out)[k].lo, (*out)[k].hi = b.Off, c.idxAdd(b.Off, b.Cap)
				if v.High != nil {
					// x[:n] — only the first n elements (a callee that promises not to re-slice beyond n)
					(*out)[k].hi = c.idxAdd(b.Off, env.idxTerm(env.eval(v.High)))
				}
			}
		}
		return
	case *ast.IndexExpr:
		base := env.eval(v.X)
		all := false
		if id, ok := v.Index.(*ast.Ident); ok && id.Name == "_all" {
			all = true
		}
		switch b := base.(type) {
		case SliceV:
			el := b.Ty.Underlying().(*types.Slice).Elem()
			c.elemEntries(b.Arr, el, all, func() string { return c.elemIdx(b.Off, env.idxTerm(env.eval(v.Index))) }, out)
			return
		case Scalar:
			if mt, ok := b.Ty.Underlying().(*types.Map); ok {
				for _, h := range c.mapHeaps(mt) {
					*out = append(*out, modEntry{heap: h.name, sort: h.sort, kind: modSingle, ref: b.T})
				}
				return
			}
			if pt, ok := b.Ty.Underlying().(*types.Pointer); ok {
				if at, ok := pt.Elem().Underlying().(*types.Array); ok {
					c.elemEntries(b.T, at.Elem(), all, func() string { return env.idxTerm(env.eval(v.Index)) }, out)
					return
				}
			}
		}
		specFail("modifies %s: unsupported", exprString(x))
	case *ast.StarExpr:
		p := env.eval(v.X)
		switch b := p.(type) {
		case Scalar:
			pt := b.Ty.Underlying().(*types.Pointer)
			if isAggregate(pt.Elem()) {
				c.allFieldEntries(b.T, pt.Elem(), out)
				return
			}
			for _, cp := range c.ar.comps(pt.Elem()) {
				*out = append(*out, modEntry{heap: fieldHeapName("cell", typeName(pt.Elem()), cp.Path), sort: fmt.Sprintf("(Array Ref %s)", cp.S), kind: modSingle, ref: b.T})
			}
			return
		case LocV:
			pt := b.Ty.Underlying().(*types.Pointer)
			for _, cp := range c.ar.comps(pt.Elem()) {
				switch b.Kind {
				case LocCell:
					*out = append(*out, modEntry{heap: fieldHeapName("cell", typeName(pt.Elem()), cp.Path), sort: fmt.Sprintf("(Array Ref %s)", cp.S), kind: modSingle, ref: b.Base})
				case LocField:
					*out = append(*out, modEntry{heap: fieldHeapName(b.Field.Owner, b.Field.Name, cp.Path), sort: fmt.Sprintf("(Array Ref %s)", cp.S), kind: modSingle, ref: b.Base})
				case LocElem:
					*out = append(*out, modEntry{heap: elemHeapName(pt.Elem(), cp.Path), sort: c.elemHeapSort(cp.S), kind: modElemAt, ref: b.Base, idx: b.Idx})
				}
			}
			return
		}
	case *ast.CallExpr:
		if id, ok := v.Fun.(*ast.Ident); ok && id.Name == "heap" {
			// heap(T.f): the whole field heap
			sel, ok := v.Args[0].(*ast.SelectorExpr)
			if !ok {
				specFail("heap(T.f) expected")
			}
			t := env.resolveType(sel.X)
			st := structOf(t)
			if st == nil {
				specFail("heap(T.f): T is not a struct")
			}
			if gf := c.eng.ghostField(t, sel.Sel.Name); gf != nil {
				*out = append(*out, modEntry{heap: ghostHeapName(gf), sort: c.ghostHeapSort(gf), kind: modWholeHeap})
				return
			}
			for i := 0; i < st.NumFields(); i++ {
				if st.Field(i).Name() == sel.Sel.Name {
					for _, cp := range c.ar.comps(st.Field(i).Type()) {
						*out = append(*out, modEntry{heap: fieldHeapName(typeName(t), sel.Sel.Name, cp.Path), sort: fmt.Sprintf("(Array Ref %s)", cp.S), kind: modWholeHeap})
					}
					return
				}
			}
			specFail("heap(T.f): no such field")
		}
		if id, ok := v.Fun.(*ast.Ident); ok && id.Name == "elems" {
			// elems(T): whole element heap for element type T
			t := env.resolveType(v.Args[0])
			if isAggregate(t) {
				var tmp []modEntry
				c.allFieldEntries("rnil", t, &tmp)
				for _, e := range tmp {
					e.kind = modWholeHeap
					*out = append(*out, e)
				}
				return
			}
			for _, cp := range c.ar.comps(t) {
				*out = append(*out, modEntry{heap: elemHeapName(t, cp.Path), sort: c.elemHeapSort(cp.S), kind: modWholeHeap})
			}
			return
		}
		if id, ok := v.Fun.(*ast.Ident); ok && id.Name == "everything" {
			*out = append(*out, modEntry{all: true})
			return
		}
	case *ast.Ident:
		if v.Name == "everything" {
			*out = append(*out, modEntry{all: true})
			return
		}
		// a captured variable of a function literal: its cell
		if sa, ok := env.vars[v.Name].(SrcAddr); ok {
			if lv, ok := sa.P.(LocV); ok && lv.Kind == LocCell {
				// the same variable seen from the enclosing function: a heap cell
				sa = SrcAddr{P: Scalar{lv.Base, SRef, lv.Ty}, Ty: sa.Ty}
			}
			if b, ok := sa.P.(Scalar); ok {
				pt := b.Ty.Underlying().(*types.Pointer)
				if isAggregate(pt.Elem()) {
					c.allFieldEntries(b.T, pt.Elem(), out)
					return
				}
				for _, cp := range c.ar.comps(pt.Elem()) {
					*out = append(*out, modEntry{heap: fieldHeapName("cell", typeName(pt.Elem()), cp.Path), sort: fmt.Sprintf("(Array Ref %s)", cp.S), kind: modSingle, ref: b.T})
				}
				return
			}
		}
		// a bare pointer-typed name: all fields
		base := env.eval(v)
		if b, ok := base.(Scalar); ok {
			if pt, ok := b.Ty.Underlying().(*types.Pointer); ok {
				c.allFieldEntries(b.T, pt.Elem(), out)
				return
			}
		}
	}
	specFail("unsupported modifies target %s", exprString(x))
}

func (c *Ctx) elemEntries(arr string, el types.Type, all bool, idx func() string, out *[]modEntry) {
	if isAggregate(el) {
		var tmp []modEntry
		c.allFieldEntries("rnil", el, &tmp)
		for _, e := range tmp {
			if all {
				e.kind = modElems
				e.ref = arr
				e.nested = true
			} else {
				// specific element: single ref with the sub-path re-rooted
				e.ref = strings.Replace(e.ref, "rnil", fmt.Sprintf("(mkelem %s %s)", arr, idx()), 1)
			}
			*out = append(*out, e)
		}
		return
	}
	for _, cp := range c.ar.comps(el) {
		e := modEntry{heap: elemHeapName(el, cp.Path), sort: c.elemHeapSort(cp.S), ref: arr}
		if all {
			e.kind = modElems
		} else {
			e.kind = modElemAt
			e.idx = idx()
		}
		*out = append(*out, e)
	}
}

func isElemHeap(name string) bool { return strings.HasPrefix(name, "E:") || strings.HasPrefix(name, "M:") }

func modsAll(mods []modEntry) bool {
	for _, m := range mods {
		if m.all {
			return true
		}
	}
	return false
}

// havocMods applies a havoc of the given modifies set to the state.
func (c *Ctx) havocMods(s *State, mods []modEntry, allocBase string) {
	if modsAll(mods) {
		c.havocAll(s)
		return
	}
	by := map[string][]modEntry{}
	var names []string
	for _, m := range mods {
		if _, ok := by[m.heap]; !ok {
			names = append(names, m.heap)
		}
		by[m.heap] = append(by[m.heap], m)
	}
	sort.Strings(names)
	for _, name := range names {
		es := by[name]
		hs := es[0].sort
		h := c.heapTerm(s, name, hs)
		whole := false
		for _, m := range es {
			if m.kind == modWholeHeap {
				whole = true
			}
		}
		if whole {
			c.havocHeapNamed(s, name, hs)
			continue
		}
		cur := h
		var quant []modEntry
		inner := innerSort(hs)
		for _, m := range es {
			switch {
			case m.kind == modSingle:
				f := c.freshConst(s, "hv", Sort(inner))
				cur = fmt.Sprintf("(store %s %s %s)", cur, m.ref, f)
			case m.kind == modElems && m.nested:
				quant = append(quant, m)
			case m.kind == modElems && isElemHeap(name):
				f := c.freshConst(s, "hv", Sort(inner))
				if m.lo != "" {
					js := firstIndexSort(inner)
					c.assume(s, fmt.Sprintf("(forall ((j %s)) (! (=> (not (and %s %s)) (= (select %s j) (select (select %s %s) j))) :pattern ((select %s j))))",
						js, c.idxCmp(token.LEQ, m.lo, "j"), c.idxCmp(token.LSS, "j", m.hi), f, cur, m.ref, f))
				}
				cur = fmt.Sprintf("(store %s %s %s)", cur, m.ref, f)
			case m.kind == modElemAt:
				f := c.freshConst(s, "hv", Sort(innerSort(inner)))
				cur = fmt.Sprintf("(store %s %s (store (select %s %s) %s %s))", cur, m.ref, cur, m.ref, m.idx, f)
			case m.kind == modElems:
				quant = append(quant, m)
			}
		}
		if len(quant) == 0 {
			c.setHeap(s, name, hs, cur)
			continue
		}
		base := cur
		if cur != h {
			c.setHeap(s, name, hs, cur)
			base = s.heap[name]
		}
		n := c.havocHeapNamed(s, name, hs)
		var conds []string
		for _, m := range quant {
			if m.nested {
				conds = append(conds, nestedElemPred("r", m.ref))
			} else {
				conds = append(conds, fmt.Sprintf("(and ((_ is mkelem) r) (= (earr r) %s))", m.ref))
			}
		}
		cond := conds[0]
		if len(conds) > 1 {
			cond = "(or " + strings.Join(conds, " ") + ")"
		}
		c.assume(s, fmt.Sprintf("(forall ((r Ref)) (! (=> (not %s) (= (select %s r) (select %s r))) :pattern ((select %s r))))", cond, n, base, n))
	}
}

// innerSort: "(Array Ref X)" -> "X"
func innerSort(s string) string {
	s = strings.TrimSpace(s)
	if !strings.HasPrefix(s, "(Array ") {
		return s
	}
	body := s[7 : len(s)-1]
	// skip first sort
	d := 0
	for i, ch := range body {
		switch ch {
		case '(':
			d++
		case ')':
			d--
		case ' ':
			if d == 0 {
				return strings.TrimSpace(body[i+1:])
			}
		}
	}
	return body
}

func (c *Ctx) havocAll(s *State) { c.havocAllKeeping(s, true) }

// havocAllKeeping: every heap gets an unknown new version. With keepPrivate, the fields of this function's private
// local aggregates (struct variables whose address is never stored, returned, captured or handed to anything but
// callees that only read and write through it; see allocIsPrivate) keep their contents: no callee can reach them.
// Loop-head havocs do not keep them (the loop body itself may assign them).
func (c *Ctx) havocAllKeeping(s *State, keepPrivate bool) {
	type kept struct{ heap, ref, old string }
	var keep []kept
	if keepPrivate {
		for _, pr := range s.privates {
			var ents []modEntry
			c.allFieldEntries(pr.ref, pr.ty, &ents)
			for _, e := range ents {
				if e.kind != modSingle {
					continue
				}
				keep = append(keep, kept{e.heap, e.ref, c.heapTerm(s, e.heap, e.sort)})
			}
		}
	}
	var names []string
	for n := range c.heapSorts {
		names = append(names, n)
	}
	sort.Strings(names)
	for _, n := range names {
		c.havocHeapNamed(s, n, c.heapSorts[n])
	}
	for _, k := range keep {
		if _, ok := c.heapSorts[k.heap]; !ok {
			continue
		}
		c.assume(s, fmt.Sprintf("(= (select %s %s) (select %s %s))", s.heap[k.heap], k.ref, k.old, k.ref))
	}
	s.havocAllSeen = true
	if !c.havocAllDeclared {
		c.undecide("call with unspecified frame: all heaps havocked (" + c.lastCallee + ")")
	}
}

// checkFrame emits one obligation per heap array that changed relative to snap.
func (c *Ctx) checkFrame(s *State, snap map[string]string, mods []modEntry, allocBase string, kind, label string, pos token.Pos) {
	if modsAll(mods) {
		return
	}
	var names []string
	for n := range s.heap {
		names = append(names, n)
	}
	sort.Strings(names)
	for _, name := range names {
		cur := s.heap[name]
		old, ok := snap[name]
		if !ok {
			old = c.entryHeapTerm(name)
		}
		if cur == old {
			continue
		}
		hs := c.heapSorts[name]
		var es []modEntry
		whole := false
		for _, m := range mods {
			if m.heap == name {
				es = append(es, m)
				if m.kind == modWholeHeap {
					whole = true
				}
			}
		}
		if whole {
			continue
		}
		r := c.freshConst(s, "fr", SRef)
		prem := []string{fmt.Sprintf("(< (rootid %s) %s)", r, allocBase), fmt.Sprintf("(not (= (rootid %s) 0))", r)}
		needIdx := false
		for _, m := range es {
			if m.kind == modElemAt || m.kind == modElems && m.lo != "" {
				needIdx = true
			}
		}
		var goal string
		if needIdx {
			j := c.freshConst(s, "fj", Sort(firstIndexSort(innerSort(hs))))
			for _, m := range es {
				switch {
				case m.kind == modElems && m.nested:
					prem = append(prem, "(not "+nestedElemPred(r, m.ref)+")")
				case m.kind == modElems && m.lo != "":
					prem = append(prem, fmt.Sprintf("(not (and (= %s %s) %s %s))", r, m.ref, c.idxCmp(token.LEQ, m.lo, j), c.idxCmp(token.LSS, j, m.hi)))
				case m.kind == modSingle, m.kind == modElems:
					prem = append(prem, fmt.Sprintf("(not (= %s %s))", r, m.ref))
				case m.kind == modElemAt:
					prem = append(prem, fmt.Sprintf("(not (and (= %s %s) (= %s %s)))", r, m.ref, j, m.idx))
				}
			}
			goal = fmt.Sprintf("(=> (and %s) (= (select (select %s %s) %s) (select (select %s %s) %s)))", strings.Join(prem, " "), cur, r, j, old, r, j)
		} else {
			for _, m := range es {
				switch {
				case m.kind == modElems && m.nested:
					prem = append(prem, "(not "+nestedElemPred(r, m.ref)+")")
				case m.kind == modSingle, m.kind == modElems && isElemHeap(name):
					prem = append(prem, fmt.Sprintf("(not (= %s %s))", r, m.ref))
				case m.kind == modElems:
					prem = append(prem, fmt.Sprintf("(not (and ((_ is mkelem) %s) (= (earr %s) %s)))", r, r, m.ref))
				}
			}
			goal = fmt.Sprintf("(=> (and %s) (= (select %s %s) (select %s %s)))", strings.Join(prem, " "), cur, r, old, r)
		}
		lb := strings.TrimPrefix(name, "F:")
		if label != "" {
			lb = label + "." + lb
		}
		c.oblige(s, kind, lb, goal, "unchanged outside modifies: "+name, pos)
	}
}

func firstIndexSort(arraySort string) string {
	// "(Array K V)" -> K
	s := strings.TrimSpace(arraySort)
	if !strings.HasPrefix(s, "(Array ") {
		return "Int"
	}
	body := s[7 : len(s)-1]
	d := 0
	for i, ch := range body {
		switch ch {
		case '(':
			d++
		case ')':
			d--
		case ' ':
			if d == 0 {
				return body[:i]
			}
		}
	}
	return body
}

// ---------- calls ----------

func (c *Ctx) call(s *State, fr *Frame, x *ssa.Call) []*State {
	com := x.Common()
	var args []Val
	if com.IsInvoke() {
		recv := c.val(s, com.Value)
		args = append(args, recv)
		for _, a := range com.Args {
			args = append(args, c.val(s, a))
		}
		res := c.invoke(s, fr, x, com, args)
		if res != nil {
			fr.regs[x] = res
			if s.lastRes == nil {
				s.lastRes = map[string]Val{}
			}
			s.lastRes["("+typeName(com.Value.Type())+")."+com.Method.Name()] = res
		}
		return nil
	}
	switch fn := com.Value.(type) {
	case *ssa.Builtin:
		for _, a := range com.Args {
			args = append(args, c.val(s, a))
		}
		if fn.Name() == "append" {
			if forks := c.appendOneStruct(s, fr, x, args); forks != nil {
				return forks
			}
		}
		res := c.builtin(s, fr, x, fn.Name(), args, com.Args)
		if res != nil {
			fr.regs[x] = res
		}
		return nil
	case *ssa.Function:
		for _, a := range com.Args {
			args = append(args, c.val(s, a))
		}
		return c.callStatic(s, fr, x, fn, args, nil)
	}
	// function value
	fv := c.val(s, com.Value)
	for _, a := range com.Args {
		args = append(args, c.val(s, a))
	}
	if cl, ok := fv.(ClosureV); ok {
		fn := cl.Fn.(*ssa.Function)
		return c.callStatic(s, fr, x, fn, args, cl.Bindings)
	}
	// seq(F$k): a range-over-func loop — loop rule with the body's contract (rangefunc.go)
	if len(args) == 1 {
		if cl, ok := args[0].(ClosureV); ok {
			if pf, _ := cl.Fn.(*ssa.Function); pf != nil && pf.Synthetic == "range-over-func yield" {
				return c.rangeFuncLoop(s, fr, x, cl, pf)
			}
		}
	}
	for _, a := range args {
		if cl, ok := a.(ClosureV); ok && len(cl.Bindings) > 0 {
			unsup("function literal with captured variables passed to an unknown function value (it could write them)")
		}
	}
	// the yield parameter of an iterator literal: every element handed to the loop body satisfies the `elem` clauses of
	// the function that returns this iterator (this is where those clauses are proved)
	if prm, ok := com.Value.(*ssa.Parameter); ok && fr.fn == c.fn && c.fn.Parent() != nil && len(c.fn.Params) == 1 && prm == c.fn.Params[0] {
		if pfc := c.eng.contractFor(c.fn.Parent()); pfc != nil && len(pfc.Elems) > 0 {
			env := c.newSpecEnv(s, fr)
			env.useSrc = true
			for k, v := range c.entryEnvVars {
				if _, ok := env.vars[k]; !ok {
					env.vars[k] = v
				}
			}
			for i, a := range args {
				env.vars[fmt.Sprintf("arg%d", i)] = a
			}
			env.old = map[string]string{}
			env.oldIsEntry = true
			env.lets = pfc.Lets
			for i, e := range pfc.Elems {
				lb := e.Label
				if lb == "" {
					lb = fmt.Sprintf("%d", i)
				}
				c.obligeClauseAt(s, env, "elem", lb, e, x.Pos())
			}
		}
	}
	// unknown function value: havoc result, log the call; assumed not to write modelled state
	c.assumptions["calls of function values do not modify the caller's modelled state"] = true
	s.calllog = append(s.calllog, "fnvalue", fnValueName(com.Value))
	if x.Type() != nil {
		if tt, ok := x.Type().(*types.Tuple); !ok || tt.Len() > 0 {
			fr.regs[x] = c.freshVal(s, "fnres", x.Type())
		}
	}
	return nil
}

func relFuncName(fn *ssa.Function) string {
	if a, ok := fnAliases[fn]; ok {
		return a
	}
	if fn.Pkg == nil {
		if o := fn.Origin(); o != nil && o.Pkg != nil {
			return o.RelString(o.Pkg.Pkg)
		}
		return fn.String()
	}
	return fn.RelString(fn.Pkg.Pkg)
}

func fullFuncName(fn *ssa.Function) string {
	if o := fn.Origin(); o != nil {
		return o.String()
	}
	return fn.String()
}

func (c *Ctx) callStatic(s *State, fr *Frame, x ssa.Instruction, fn *ssa.Function, args []Val, bindings []Val) []*State {
	full := fullFuncName(fn)
	c.lastCallee = full
	s.calllog = append(s.calllog, relFuncName(fn))
	if s.callArgs == nil {
		s.callArgs = map[string][][]Val{}
	}
	s.callArgs[relFuncName(fn)] = append(s.callArgs[relFuncName(fn)], args)
	var resReg ssa.Value
	if cv, ok := x.(*ssa.Call); ok {
		resReg = cv
	}
	setRes := func(v Val) {
		if resReg != nil && v != nil {
			fr.regs[resReg] = v
		}
		if c.afterCallNames[relFuncName(fn)] {
			// aftercall("callee", k, e): keep the heap as this call left it
			snap := make(map[string]string, len(s.heap))
			for k, t := range s.heap {
				snap[k] = t
			}
			if s.callHeaps == nil {
				s.callHeaps = map[string][]map[string]string{}
			}
			s.callHeaps[relFuncName(fn)] = append(s.callHeaps[relFuncName(fn)][:len(s.callHeaps[relFuncName(fn)]):len(s.callHeaps[relFuncName(fn)])], snap)
		}
		if v != nil {
			if s.lastRes == nil {
				s.lastRes = map[string]Val{}
			}
			s.lastRes[relFuncName(fn)] = v
		}
	}
	// intrinsics
	if h, ok := intrinsics[full]; ok {
		setRes(h(c, s, fr, x, fn, args))
		return nil
	}
	if v, ok := c.intrinsicPattern(s, fr, x, fn, full, args); ok {
		setRes(v)
		return nil
	}
	fc := c.eng.contractFor(fn)
	inline := false
	if fc != nil && fc.Inline {
		inline = true
	}
	if fc == nil && (bindings != nil || fn.Parent() != nil) {
		inline = true // closures with statically known target are syntax of the enclosing function
	}
	if fc == nil && strings.HasPrefix(fn.Synthetic, "wrapper") {
		inline = true // promoted-method wrappers
	}
	if inline {
		if fn.Blocks == nil {
			unsup("inline of external function %s", full)
		}
		if len(s.frames) > 12 {
			unsup("inline depth exceeded at %s", full)
		}
		nf := c.newFrame(fn)
		for i, p := range fn.Params {
			nf.regs[p] = args[i]
			nf.src[p.Name()] = args[i]
		}
		for i, fv := range fn.FreeVars {
			nf.regs[fv] = bindings[i]
		}
		if cv, ok := x.(*ssa.Call); ok {
			nf.retTo = cv
		}
		s.frames = append(s.frames, nf)
		return nil
	}
	if fc == nil {
		// extern contract by full name?
		if ec := c.eng.db.Externs[full]; ec != nil {
			fc = ec
		}
	}
	if fc != nil {
		names := make([]string, len(fn.Params))
		for i, p := range fn.Params {
			names[i] = p.Name()
		}
		recvName := ""
		if fn.Signature.Recv() != nil {
			recvName = fc.RecvName
		}
		res := c.applyContract(s, fr, x, fc, relFuncName(fn), names, recvName, args, fn.Signature, fn.Pkg)
		setRes(res)
		return nil
	}
	// unknown callee
	setRes(c.unknownCall(s, fr, x, fn, args))
	return nil
}

// unknownCall: callee without contract.
func (c *Ctx) unknownCall(s *State, fr *Frame, x ssa.Instruction, fn *ssa.Function, args []Val) Val {
	inModule := fn.Pkg != nil && strings.HasPrefix(fn.Pkg.Pkg.Path(), c.eng.modPath)
	if o := fn.Origin(); o != nil && o.Pkg != nil {
		inModule = strings.HasPrefix(o.Pkg.Pkg.Path(), c.eng.modPath)
	}
	if inModule {
		c.lastCallee = fullFuncName(fn)
		c.havocAll(s)
	} else {
		c.assumptions["out-of-module callees without extern contract ("+fullFuncName(fn)+"): only element heaps of slice arguments and direct fields of pointer arguments (also when boxed in an interface at the call) are havocked"] = true
		var mods []modEntry
		var raw []ssa.Value
		if call, ok := x.(ssa.CallInstruction); ok {
			raw = call.Common().Args
		}
		for i, a := range args {
			// a pointer boxed into an interface right at the call (json/asn1.Unmarshal(data, &v), fmt.Sscan(..., &x)):
			// the callee can write through it just as through a plain pointer argument
			if iv, ok := a.(IfaceV); ok && i < len(raw) {
				if mi, ok := raw[i].(*ssa.MakeInterface); ok {
					if pt, ok := mi.X.Type().Underlying().(*types.Pointer); ok && isAggregate(pt.Elem()) {
						c.allFieldEntries(iv.PRef, pt.Elem(), &mods)
					}
				}
			}
			switch v := a.(type) {
			case SliceV:
				el := v.Ty.Underlying().(*types.Slice).Elem()
				c.elemEntries(v.Arr, el, true, nil, &mods)
			case Scalar:
				if pt, ok := v.Ty.Underlying().(*types.Pointer); ok && v.S == SRef && isAggregate(pt.Elem()) {
					c.allFieldEntries(v.T, pt.Elem(), &mods)
				}
			}
		}
		c.havocMods(s, mods, "")
	}
	sig := fn.Signature
	return c.freshResults(s, "r."+fn.Name(), sig.Results())
}

func (c *Ctx) freshResults(s *State, prefix string, results *types.Tuple) Val {
	switch results.Len() {
	case 0:
		return nil
	case 1:
		return c.freshVal(s, prefix, results.At(0).Type())
	}
	tv := TupleV{Ty: results}
	for i := 0; i < results.Len(); i++ {
		tv.E = append(tv.E, c.freshVal(s, fmt.Sprintf("%s.%d", prefix, i), results.At(i).Type()))
	}
	return tv
}

// applyContract: assert pre, havoc modifies, assume post.
func (c *Ctx) applyContract(s *State, fr *Frame, x ssa.Instruction, fc *FuncContract, calleeName string, names []string, recvName string, args []Val, sig *types.Signature, calleePkg *ssa.Package) Val {
	site := "lemma"
	pos := token.NoPos
	if x != nil {
		site = c.siteOf(x, "call")
		pos = x.Pos()
	}
	return c.applyContractAt(s, fr, site, pos, fc, calleeName, names, recvName, args, sig, calleePkg)
}

func (c *Ctx) applyContractAt(s *State, fr *Frame, site string, pos token.Pos, fc *FuncContract, calleeName string, names []string, recvName string, args []Val, sig *types.Signature, calleePkg *ssa.Package) Val {
	// every contract that is used without being proved is an assumption of this check
	switch {
	case fc.Trusted != "":
		c.assumptions["assumed contract (trusted, not verified): "+shortPkg(fc.Pkg)+"."+fc.Key+" — "+fc.Trusted] = true
	case fc.IsExtern:
		c.assumptions["assumed contract (extern, outside the repository): "+fc.Key] = true
	case fc.IsIface:
		c.assumptions["assumed contract (interface method, implementations not verified against it): "+fc.Key] = true
	case len(fc.Props) == 0 && !fc.Inline:
		c.assumptions["contract used but not owned by any claimed property (verified only with `govc vc`): "+shortPkg(fc.Pkg)+"."+fc.Key] = true
	}
	env := c.newSpecEnv(s, fr)
	if calleePkg != nil {
		env.pkg = calleePkg.Pkg
		if pc := c.eng.db.Pkgs[calleePkg.Pkg.Path()]; pc != nil {
			env.pc = pc
		}
	} else if pc := c.eng.db.Pkgs[fc.Pkg]; pc != nil {
		env.pc = pc
		if p := c.eng.typesPkg(fc.Pkg); p != nil {
			env.pkg = p
		}
	}
	env.vars = map[string]Val{}
	for i, n := range names {
		if i < len(args) {
			env.vars[n] = args[i]
		}
	}
	if recvName != "" && len(args) > 0 {
		env.vars[recvName] = args[0]
	}
	// captured variables of a function literal whose contract is applied (set by the caller, consumed here)
	for k, v := range c.extraContractVars {
		env.vars[k] = v
	}
	c.extraContractVars = nil
	env.old = s.snapshot()
	env.lets = fc.Lets
	for i, r := range fc.Requires {
		lb := r.Label
		if lb == "" {
			lb = fmt.Sprintf("%d", i)
		}
		goal := env.evalBool(r.Expr)
		c.oblige(s, "pre", fmt.Sprintf("%s@%s.%s", calleeName, site, lb), goal, "precondition of "+calleeName+": "+r.Text, pos)
	}
	for i, p := range fc.PanicsWhen {
		calleeCond := env.evalBool(p.Expr)
		goal := simplifyNot(calleeCond)
		// a callee panic is allowed where the function under verification is itself allowed to panic
		if own := c.ownPanicCond(s); own != "" {
			goal = fmt.Sprintf("(or %s %s)", goal, own)
		}
		c.oblige(s, "pre", fmt.Sprintf("%s@%s.nopanic%d", calleeName, site, i), goal, calleeName+" does not panic: not("+p.Text+")", pos)
		c.assume(s, simplifyNot(calleeCond)) // execution continues past the call
	}
	old := s.snapshot()
	// the callee may allocate and store what it allocated: bump the allocation base before the havoc, so that the
	// havocked heap versions are known to hold references below the new base; callee-fresh objects lie in [preAlloc, newBase)
	preAlloc := c.bind(s, "allocpre", SInt, c.allocTerm(s))
	nb := c.freshConst(s, "allocC", SInt)
	c.assume(s, fmt.Sprintf("(>= %s %s)", nb, preAlloc))
	var mods0 []modEntry
	if fc.ModGiven {
		mods0 = c.evalMods(env, fc.Modifies)
	}
	s.allocBase = nb
	s.allocCnt = 0
	if fc.ModGiven {
		mods := mods0
		c.havocAllDeclared = modsAll(mods)
		c.havocMods(s, mods, "")
		c.havocAllDeclared = false
	} else if fc.Pure {
		// no effects
	} else {
		c.lastCallee = calleeName
		c.havocAll(s)
	}
	var res Val
	if fc.Fresh && sig.Results().Len() >= 1 {
		// first result freshly allocated
		res = c.freshResults(s, "r."+sanitize(calleeName), sig.Results())
		ref := c.allocRef(s)
		setFresh := func(v Val) Val {
			switch r := v.(type) {
			case Scalar:
				if r.S == SRef {
					c.assume(s, fmt.Sprintf("(= %s %s)", r.T, ref))
				}
			case SliceV:
				c.assume(s, fmt.Sprintf("(= %s %s)", r.Arr, ref))
			case IfaceV:
				c.assume(s, fmt.Sprintf("(= %s %s)", r.PRef, ref))
			}
			return v
		}
		if tv, ok := res.(TupleV); ok {
			setFresh(tv.E[0])
		} else {
			setFresh(res)
		}
	} else {
		res = c.freshResults(s, "r."+sanitize(calleeName), sig.Results())
	}
	env2 := c.newSpecEnv(s, fr)
	env2.freshLo, env2.freshHi = preAlloc, nb
	env2.pkg, env2.pc = env.pkg, env.pc
	env2.vars = env.vars
	env2.lets = fc.Lets
	env2.old = old
	results := sig.Results()
	if results.Len() == 1 {
		env2.vars["result"] = res
		env2.vars["result0"] = res
		if n := results.At(0).Name(); n != "" && n != "_" {
			if _, clash := env2.vars[n]; !clash {
				env2.vars[n] = res
			}
		}
	} else if results.Len() > 1 {
		tv := res.(TupleV)
		for i := 0; i < results.Len(); i++ {
			env2.vars[fmt.Sprintf("result%d", i)] = tv.E[i]
			if n := results.At(i).Name(); n != "" && n != "_" {
				if _, clash := env2.vars[n]; !clash {
					env2.vars[n] = tv.E[i]
				}
			}
		}
	}
	env2.calleeCalls = map[string]string{}
	for _, e := range fc.Ensures {
		if strings.HasPrefix(e.Label, "bv:") && !c.ar.bv {
			continue // bit-level clause: not usable (and not needed) by callers verified with integer arithmetic
		}
		if strings.Contains(e.Text, "calledinloop(") || strings.Contains(e.Text, "lastresult") || strings.Contains(e.Text, "lastarg(") || strings.Contains(e.Text, "callarg(") {
			// clauses about the callee's own call log (results, per-iteration counts) are checked on the callee only
			continue
		}
		// a clause that names a local variable of the callee is likewise checked on the callee only
		func() {
			defer func() {
				if r := recover(); r != nil {
					if se, ok := r.(specError); ok && strings.HasPrefix(se.msg, "unknown identifier ") {
						return
					}
					panic(r)
				}
			}()
			t := env2.evalBool(e.Expr)
			c.assume(s, t)
		}()
	}
	// calls the callee makes (as far as its contract states them) count as calls of the caller
	if len(env2.calleeCalls) > 0 {
		c.assumptions["call counts are transitive only through called(...) clauses of callee contracts; calls a callee makes without stating them are not counted"] = true
		if s.callExtra == nil {
			s.callExtra = map[string][]string{}
		}
		var names []string
		for n := range env2.calleeCalls {
			names = append(names, n)
		}
		sort.Strings(names)
		for _, n := range names {
			s.callExtra[n] = append(s.callExtra[n], env2.calleeCalls[n])
		}
	}
	return res
}

// invoke: interface method call.
func (c *Ctx) invoke(s *State, fr *Frame, x *ssa.Call, com *ssa.CallCommon, args []Val) Val {
	it := com.Value.Type()
	mname := com.Method.Name()
	key := "(" + typeName(it) + ")." + mname
	s.calllog = append(s.calllog, key)
	if s.callArgs == nil {
		s.callArgs = map[string][][]Val{}
	}
	s.callArgs[key] = append(s.callArgs[key], args) // args[0] is the receiver
	sig := com.Method.Type().(*types.Signature)
	iv, _ := args[0].(IfaceV)
	if c.checkNil && !c.eng.effectFreeIface(typeName(it)) || c.checkNil && c.fc.Opts["nilcheck-loggers"] != "" {
		c.oblige(s, "safe:nil", c.siteOf(x, "nil"), fmt.Sprintf("(not (= %s 0))", iv.Tag), "nil interface method call", x.Pos())
	} else {
		c.assume(s, fmt.Sprintf("(not (= %s 0))", iv.Tag))
	}
	if fn, ct := c.eng.devirt(it, mname); fn != nil {
		c.assumptions["interface "+typeName(it)+" is always implemented by "+typeName(ct)+" (devirtualised; test doubles excluded)"] = true
		c.assume(s, fmt.Sprintf("(= %s %d)", iv.Tag, c.typeID(ct)))
		recv := Scalar{iv.PRef, SRef, ct}
		c.assume(s, c.ptrFact(recv))
		nargs := append([]Val{recv}, args[1:]...)
		c.callStatic(s, fr, x, fn, nargs, nil)
		if v, ok := fr.regs[x]; ok {
			return v
		}
		return nil
	}
	if fc := c.eng.ifaceContract(it, mname); fc != nil {
		var names []string
		names = append(names, fc.RecvName)
		for i := 0; i < sig.Params().Len(); i++ {
			n := sig.Params().At(i).Name()
			if n == "" || n == "_" {
				n = fmt.Sprintf("arg%d", i)
			}
			names = append(names, n)
		}
		var pkg *ssa.Package
		if n := namedOf(it); n != nil && n.Obj().Pkg() != nil {
			pkg = c.eng.prog.Package(n.Obj().Pkg())
		}
		return c.applyContract(s, fr, x, fc, key, names, fc.RecvName, args, sig, pkg)
	}
	if c.eng.effectFreeIface(typeName(it)) {
		c.assumptions["methods of "+typeName(it)+" are effect-free on modelled state"] = true
		return c.freshResults(s, "r."+mname, sig.Results())
	}
	if n := namedOf(it); n != nil && n.Obj().Pkg() == nil {
		// universe type: error.Error() — a pure string rendering
		return c.freshResults(s, "r."+mname, sig.Results())
	}
	if n := namedOf(it); n != nil && n.Obj().Pkg() != nil && !strings.HasPrefix(n.Obj().Pkg().Path(), c.eng.modPath) {
		// like any other library callee without a contract: it may write the elements of its slice arguments (io.Reader.Read,
		// cipher.AEAD.Seal/Open, hash.Hash.Sum) and the pointees of its pointer arguments, nothing else that is modelled
		c.assumptions["methods of out-of-module interface "+typeName(it)+" write at most the elements of their slice arguments and the pointees of their pointer arguments"] = true
		var mods []modEntry
		for i, a := range args {
			if i == 0 {
				continue // the receiver: an object of the library, not modelled
			}
			switch v := a.(type) {
			case SliceV:
				el := v.Ty.Underlying().(*types.Slice).Elem()
				c.elemEntries(v.Arr, el, true, nil, &mods)
			case Scalar:
				if pt, ok := v.Ty.Underlying().(*types.Pointer); ok && v.S == SRef && isAggregate(pt.Elem()) {
					c.allFieldEntries(v.T, pt.Elem(), &mods)
				}
			}
		}
		if len(mods) > 0 {
			c.havocMods(s, mods, "")
		}
		return c.freshResults(s, "r."+mname, sig.Results())
	}
	c.lastCallee = key
	c.havocAll(s)
	return c.freshResults(s, "r."+mname, sig.Results())
}

func (c *Ctx) runDeferred(s *State, fr *Frame, d *ssa.Defer, args []Val) {
	com := d.Common()
	if com.IsInvoke() {
		// treat as call with result discarded
		fake := &ssa.Call{}
		_ = fake
		it := com.Value.Type()
		if c.eng.effectFreeIface(typeName(it)) {
			return
		}
		unsup("deferred interface call")
	}
	switch fn := com.Value.(type) {
	case *ssa.Function:
		full := fullFuncName(fn)
		if h, ok := intrinsics[full]; ok {
			h(c, s, fr, d, fn, args)
			return
		}
		if _, ok := c.intrinsicPattern(s, fr, d, fn, full, args); ok {
			return
		}
		fc := c.eng.contractFor(fn)
		if fc != nil && !fc.Inline {
			names := make([]string, len(fn.Params))
			for i, p := range fn.Params {
				names[i] = p.Name()
			}
			// a deferred call is a call: it is logged (called(...)) like any other when it runs
			s.calllog = append(s.calllog, relFuncName(fn))
			if s.callArgs == nil {
				s.callArgs = map[string][][]Val{}
			}
			s.callArgs[relFuncName(fn)] = append(s.callArgs[relFuncName(fn)], args)
			c.applyContract(s, fr, d, fc, relFuncName(fn), names, fc.RecvName, args, fn.Signature, fn.Pkg)
			return
		}
		unsup("deferred call of %s (needs inlining)", full)
	case *ssa.Builtin:
		c.builtin(s, fr, d, fn.Name(), args, com.Args)
		return
	case *ssa.MakeClosure:
		unsup("deferred closure")
	}
	unsup("deferred call of function value")
}

// ---------- builtins ----------

func (c *Ctx) builtin(s *State, fr *Frame, x ssa.Instruction, name string, args []Val, raw []ssa.Value) Val {
	intT := types.Typ[types.Int]
	switch name {
	case "len":
		switch a := args[0].(type) {
		case SliceV:
			return Scalar{a.Len, c.ar.idxSort(), intT}
		case Scalar:
			if a.S == SStr {
				n := c.bind(s, "strlen", c.ar.idxSort(), c.strLen(a.T))
				return Scalar{n, c.ar.idxSort(), intT}
			}
			if mt, ok := a.Ty.Underlying().(*types.Map); ok {
				return Scalar{c.mapCard(s, nil, a.T, mt), c.ar.idxSort(), intT}
			}
			if pt, ok := a.Ty.Underlying().(*types.Pointer); ok {
				if at, ok := pt.Elem().Underlying().(*types.Array); ok {
					return Scalar{c.ar.idx(at.Len()), c.ar.idxSort(), intT}
				}
			}
			if _, ok := a.Ty.Underlying().(*types.Chan); ok {
				return c.freshVal(s, "chanlen", intT)
			}
		case ArrayV:
			return Scalar{c.ar.idx(a.Ty.Underlying().(*types.Array).Len()), c.ar.idxSort(), intT}
		}
		unsup("len of %T", args[0])
	case "cap":
		switch a := args[0].(type) {
		case SliceV:
			return Scalar{a.Cap, c.ar.idxSort(), intT}
		}
		unsup("cap of %T", args[0])
	case "min", "max":
		t := raw[0].Type()
		acc := args[0].(Scalar)
		for _, b := range args[1:] {
			bs := b.(Scalar)
			var cnd string
			op := token.LEQ
			if name == "max" {
				op = token.GEQ
			}
			if isFloatType(t) {
				cnd = fmt.Sprintf("(%s %s %s)", op.String(), acc.T, bs.T)
			} else {
				ii, _ := isIntType(t)
				cnd = c.ar.cmp(op, acc.T, bs.T, ii)
			}
			acc = Scalar{fmt.Sprintf("(ite %s %s %s)", cnd, acc.T, bs.T), acc.S, acc.Ty}
		}
		acc.T = c.bind(s, name, acc.S, acc.T)
		return acc
	case "append":
		return c.appendBuiltin(s, fr, x, args, raw)
	case "copy":
		return c.copyBuiltin(s, fr, x, args, raw)
	case "delete":
		m := args[0].(Scalar)
		mt := m.Ty.Underlying().(*types.Map)
		c.mapDelete(s, m.T, mt, args[1])
		return nil
	case "clear":
		if m, ok := args[0].(Scalar); ok {
			if mt, ok := m.Ty.Underlying().(*types.Map); ok {
				c.mapInitEmpty(s, m.T, mt)
				return nil
			}
		}
		unsup("clear of non-map")
	case "print", "println":
		return nil
	case "ssa:wrapnilchk":
		return args[0]
	case "recover":
		return c.zeroVal(s, types.NewInterfaceType(nil, nil))
	case "close":
		return nil
	case "new":
	}
	unsup("builtin %s", name)
	return nil
}

// appendBuiltin models append exactly: in place when len+n <= cap, otherwise a fresh array with copied prefix.
func (c *Ctx) appendBuiltin(s *State, fr *Frame, x ssa.Instruction, args []Val, raw []ssa.Value) Val {
	dst := args[0].(SliceV)
	el := dst.Ty.Underlying().(*types.Slice).Elem()
	var srcLen string
	var src SliceV
	srcIsString := false
	switch a := args[1].(type) {
	case SliceV:
		src = a
		srcLen = a.Len
	case Scalar:
		if a.S == SStr {
			srcIsString = true
			srcLen = c.bind(s, "strlen", c.ar.idxSort(), c.strLen(a.T))
		} else {
			unsup("append of %T", a)
		}
	default:
		unsup("append of %T", args[1])
	}
	newLen := c.bind(s, "applen", c.ar.idxSort(), c.idxAdd(dst.Len, srcLen))
	fits := c.bind(s, "appfits", SBool, c.idxCmp(token.LEQ, newLen, dst.Cap))
	// fresh array for the grow case
	fresh := c.allocRef(s)
	newCap := c.freshConst(s, "appcap", c.ar.idxSort())
	c.assume(s, c.idxCmp(token.GEQ, newCap, newLen))
	rArr := c.bind(s, "apparr", SRef, fmt.Sprintf("(ite %s %s %s)", fits, dst.Arr, fresh))
	rOff := c.bind(s, "appoff", c.ar.idxSort(), fmt.Sprintf("(ite %s %s %s)", fits, dst.Off, c.ar.idx(0)))
	rCap := c.bind(s, "appcap", c.ar.idxSort(), fmt.Sprintf("(ite %s %s %s)", fits, dst.Cap, newCap))
	res := SliceV{rArr, rOff, newLen, rCap, dst.Ty}
	if isAggregate(el) {
		c.appendStructElems(s, dst, src, res, fits, el)
		return res
	}
	// element heaps: new inner array at rArr: k in [rOff, rOff+dst.Len) -> old dst elems; [rOff+dst.Len, rOff+newLen) -> src elems; other k unchanged (in place) / arbitrary (fresh)
	for _, cp := range c.ar.comps(el) {
		name := elemHeapName(el, cp.Path)
		hs := c.elemHeapSort(cp.S)
		h := c.heapTerm(s, name, hs)
		inner := c.freshConst(s, "appelems", Sort(fmt.Sprintf("(Array %s %s)", c.ar.idxSort(), cp.S)))
		oldInnerDst := fmt.Sprintf("(select %s %s)", h, dst.Arr)
		k := "k"
		lo := rOff
		mid := c.idxAdd(rOff, dst.Len)
		hi := c.idxAdd(rOff, newLen)
		var srcElem string
		if srcIsString {
			srcElem = "" // unconstrained bytes
		} else {
			srcElem = fmt.Sprintf("(select (select %s %s) %s)", h, src.Arr, c.idxAdd(src.Off, c.idxSub(k, mid)))
		}
		dstElem := fmt.Sprintf("(select %s %s)", oldInnerDst, c.idxAdd(dst.Off, c.idxSub(k, lo)))
		// prefix
		c.assume(s, fmt.Sprintf("(forall ((k %s)) (! (=> (and %s %s) (= (select %s k) %s)) :pattern ((select %s k))))",
			c.ar.idxSort(), c.idxCmp(token.LEQ, lo, k), c.idxCmp(token.LSS, k, mid), inner, dstElem, inner))
		if srcElem != "" {
			c.assume(s, fmt.Sprintf("(forall ((k %s)) (! (=> (and %s %s) (= (select %s k) %s)) :pattern ((select %s k))))",
				c.ar.idxSort(), c.idxCmp(token.LEQ, mid, k), c.idxCmp(token.LSS, k, hi), inner, srcElem, inner))
		}
		// in place: everything outside [mid, hi) unchanged
		c.assume(s, fmt.Sprintf("(=> %s (forall ((k %s)) (! (=> (not (and %s %s)) (= (select %s k) (select %s k))) :pattern ((select %s k)))))",
			fits, c.ar.idxSort(), c.idxCmp(token.LEQ, mid, k), c.idxCmp(token.LSS, k, hi), inner, oldInnerDst, inner))
		c.setHeap(s, name, hs, fmt.Sprintf("(store %s %s %s)", h, rArr, inner))
	}
	return res
}

// appendStructElems: append for slices of struct elements (fields live in F-heaps keyed by mkelem refs).
func (c *Ctx) appendStructElems(s *State, dst, src, res SliceV, fits string, el types.Type) {
	st := structOf(el)
	if st == nil {
		unsup("append of array elements")
	}
	lo := res.Off
	mid := c.idxAdd(res.Off, dst.Len)
	hi := c.idxAdd(res.Off, res.Len)
	// path: element ref -> ref of the (possibly nested) struct holding the field; inv: ref r -> (element ref term, condition that r has that shape)
	var walk func(t types.Type, path func(base string) string, inv func(r string) (string, string))
	walk = func(t types.Type, path func(base string) string, inv func(r string) (string, string)) {
		u := structOf(t)
		for i := 0; i < u.NumFields(); i++ {
			ft := u.Field(i).Type()
			if isAggregate(ft) {
				if structOf(ft) != nil {
					ii := i
					walk(ft, func(base string) string { return fmt.Sprintf("(mksub %s %d)", path(base), ii) },
						func(r string) (string, string) {
							er, cond := inv(fmt.Sprintf("(sparent %s)", r))
							return er, fmt.Sprintf("(and ((_ is mksub) %s) (= (sfld %s) %d) %s)", r, r, ii, cond)
						})
				}
				continue
			}
			for _, cp := range c.ar.comps(ft) {
				name := fieldHeapName(typeName(t), u.Field(i).Name(), cp.Path)
				hs := fmt.Sprintf("(Array Ref %s)", cp.S)
				h := c.heapTerm(s, name, hs)
				n := c.havocHeapNamed(s, name, hs)
				k := "k"
				newRef := path(fmt.Sprintf("(mkelem %s %s)", res.Arr, k))
				dstRef := path(fmt.Sprintf("(mkelem %s %s)", dst.Arr, c.idxAdd(dst.Off, c.idxSub(k, lo))))
				srcRef := path(fmt.Sprintf("(mkelem %s %s)", src.Arr, c.idxAdd(src.Off, c.idxSub(k, mid))))
				c.assume(s, fmt.Sprintf("(forall ((k %s)) (! (=> (and %s %s) (= (select %s %s) (select %s %s))) :pattern ((select %s %s))))",
					c.ar.idxSort(), c.idxCmp(token.LEQ, lo, k), c.idxCmp(token.LSS, k, mid), n, newRef, h, dstRef, n, newRef))
				c.assume(s, fmt.Sprintf("(forall ((k %s)) (! (=> (and %s %s) (= (select %s %s) (select %s %s))) :pattern ((select %s %s))))",
					c.ar.idxSort(), c.idxCmp(token.LEQ, mid, k), c.idxCmp(token.LSS, k, hi), n, newRef, h, srcRef, n, newRef))
				// frame: refs that are not this field of elements [mid,hi) of the result array are unchanged
				er, shape := inv("r")
				c.assume(s, fmt.Sprintf("(forall ((r Ref)) (! (=> (not (and %s ((_ is mkelem) %s) (= (earr %s) %s) %s %s)) (= (select %s r) (select %s r))) :pattern ((select %s r))))",
					shape, er, er, res.Arr, c.idxCmp(token.LEQ, mid, "(eidx "+er+")"), c.idxCmp(token.LSS, "(eidx "+er+")", hi), n, h, n))
			}
		}
	}
	walk(el, func(base string) string { return base }, func(r string) (string, string) { return r, "true" })
}

// copyStructBuiltin: copy(dst, src) for slices of struct elements. Every scalar field of the elements lives in a field
// heap keyed by (mkelem arr idx) references (nested structs: mksub of those). memmove semantics: the new heap at element
// dst.Off+k equals the OLD heap at element src.Off+k for 0 <= k < n; every other reference keeps its value.
func (c *Ctx) copyStructBuiltin(s *State, dst, src SliceV, n string, el types.Type) {
	lo := dst.Off
	hi := c.idxAdd(dst.Off, n)
	var walk func(t types.Type, path func(base string) string, inv func(r string) (string, string))
	walk = func(t types.Type, path func(base string) string, inv func(r string) (string, string)) {
		u := structOf(t)
		for i := 0; i < u.NumFields(); i++ {
			ft := u.Field(i).Type()
			if isAggregate(ft) {
				if structOf(ft) == nil {
					unsup("copy of struct elements with array fields")
				}
				ii := i
				walk(ft, func(base string) string { return fmt.Sprintf("(mksub %s %d)", path(base), ii) },
					func(r string) (string, string) {
						er, cond := inv(fmt.Sprintf("(sparent %s)", r))
						return er, fmt.Sprintf("(and ((_ is mksub) %s) (= (sfld %s) %d) %s)", r, r, ii, cond)
					})
				continue
			}
			for _, cp := range c.ar.comps(ft) {
				name := fieldHeapName(typeName(t), u.Field(i).Name(), cp.Path)
				hs := fmt.Sprintf("(Array Ref %s)", cp.S)
				h := c.heapTerm(s, name, hs)
				nh := c.havocHeapNamed(s, name, hs)
				k := "k"
				newRef := path(fmt.Sprintf("(mkelem %s %s)", dst.Arr, k))
				srcRef := path(fmt.Sprintf("(mkelem %s %s)", src.Arr, c.idxAdd(src.Off, c.idxSub(k, lo))))
				c.assume(s, fmt.Sprintf("(forall ((k %s)) (! (=> (and %s %s) (= (select %s %s) (select %s %s))) :pattern ((select %s %s))))",
					c.ar.idxSort(), c.idxCmp(token.LEQ, lo, k), c.idxCmp(token.LSS, k, hi), nh, newRef, h, srcRef, nh, newRef))
				er, shape := inv("r")
				c.assume(s, fmt.Sprintf("(forall ((r Ref)) (! (=> (not (and %s ((_ is mkelem) %s) (= (earr %s) %s) %s %s)) (= (select %s r) (select %s r))) :pattern ((select %s r))))",
					shape, er, er, dst.Arr, c.idxCmp(token.LEQ, lo, "(eidx "+er+")"), c.idxCmp(token.LSS, "(eidx "+er+")", hi), nh, h, nh))
			}
		}
	}
	walk(el, func(base string) string { return base }, func(r string) (string, string) { return r, "true" })
}

func (c *Ctx) copyBuiltin(s *State, fr *Frame, x ssa.Instruction, args []Val, raw []ssa.Value) Val {
	dst := args[0].(SliceV)
	el := dst.Ty.Underlying().(*types.Slice).Elem()
	var srcLen string
	var src SliceV
	isStr := false
	switch a := args[1].(type) {
	case SliceV:
		src = a
		srcLen = a.Len
	case Scalar:
		isStr = true
		srcLen = c.bind(s, "strlen", c.ar.idxSort(), c.strLen(a.T))
	}
	n := c.bind(s, "copyn", c.ar.idxSort(), fmt.Sprintf("(ite %s %s %s)", c.idxCmp(token.LEQ, dst.Len, srcLen), dst.Len, srcLen))
	if isAggregate(el) {
		if structOf(el) == nil || isStr {
			unsup("copy of array elements")
		}
		c.copyStructBuiltin(s, dst, src, n, el)
		return Scalar{n, c.ar.idxSort(), types.Typ[types.Int]}
	}
	for _, cp := range c.ar.comps(el) {
		name := elemHeapName(el, cp.Path)
		hs := c.elemHeapSort(cp.S)
		h := c.heapTerm(s, name, hs)
		inner := c.freshConst(s, "copyelems", Sort(fmt.Sprintf("(Array %s %s)", c.ar.idxSort(), cp.S)))
		oldInner := fmt.Sprintf("(select %s %s)", h, dst.Arr)
		k := "k"
		lo := dst.Off
		hi := c.idxAdd(dst.Off, n)
		if !isStr {
			srcElem := fmt.Sprintf("(select (select %s %s) %s)", h, src.Arr, c.idxAdd(src.Off, c.idxSub(k, lo)))
			c.assume(s, fmt.Sprintf("(forall ((k %s)) (! (=> (and %s %s) (= (select %s k) %s)) :pattern ((select %s k))))",
				c.ar.idxSort(), c.idxCmp(token.LEQ, lo, k), c.idxCmp(token.LSS, k, hi), inner, srcElem, inner))
		}
		c.assume(s, fmt.Sprintf("(forall ((k %s)) (! (=> (not (and %s %s)) (= (select %s k) (select %s k))) :pattern ((select %s k))))",
			c.ar.idxSort(), c.idxCmp(token.LEQ, lo, k), c.idxCmp(token.LSS, k, hi), inner, oldInner, inner))
		c.setHeap(s, name, hs, fmt.Sprintf("(store %s %s %s)", h, dst.Arr, inner))
	}
	return Scalar{n, c.ar.idxSort(), types.Typ[types.Int]}
}

// ---------- ghost fields ----------

func ghostHeapName(gf *GhostField) string { return "G:" + gf.Owner + "." + gf.Name }

func (c *Ctx) ghostValSort(gf *GhostField) string {
	t := gf.Type
	switch {
	case strings.HasPrefix(t, "set["):
		return fmt.Sprintf("(Array %s Bool)", c.ar.idxSort())
	case t == "int":
		return "Int"
	case t == "bool":
		return "Bool"
	case strings.HasPrefix(t, "map["):
		// map[int]int only
		return "(Array Int Int)"
	case t == "ref":
		return "Ref"
	}
	unsup("ghost type %s", t)
	return ""
}

func (c *Ctx) ghostHeapSort(gf *GhostField) string {
	return fmt.Sprintf("(Array Ref %s)", c.ghostValSort(gf))
}

type GhostMapV struct {
	Term string
	VS   Sort
	VTy  types.Type
	Ty   types.Type
}

func (g GhostMapV) Type() types.Type { return g.Ty }

func (c *Ctx) ghostRead(s *State, heap map[string]string, gf *GhostField, ref string) Val {
	name := ghostHeapName(gf)
	hs := c.ghostHeapSort(gf)
	var h string
	if heap != nil {
		if t, ok := heap[name]; ok {
			h = t
		} else {
			c.heapSorts[name] = hs
			c.declGlobal("heap:"+name, fmt.Sprintf("(declare-const %s %s)", q(name+"@0"), hs))
			h = q(name + "@0")
		}
	} else {
		h = c.heapTerm(s, name, hs)
	}
	t := fmt.Sprintf("(select %s %s)", h, ref)
	switch {
	case strings.HasPrefix(gf.Type, "set["):
		return GhostSetV{Term: t, Elem: gf.Type[4 : len(gf.Type)-1]}
	case gf.Type == "int":
		return Scalar{t, SInt, types.Typ[types.Int]}
	case gf.Type == "bool":
		return Scalar{t, SBool, types.Typ[types.Bool]}
	case gf.Type == "ref":
		return Scalar{t, SRef, types.Typ[types.UnsafePointer]}
	case strings.HasPrefix(gf.Type, "map["):
		return GhostMapV{Term: t, VS: SInt, VTy: types.Typ[types.Int]}
	}
	unsup("ghost type %s", gf.Type)
	return nil
}

// applyUpdate executes a ghost update "x.g = expr" at function exit.
func (c *Ctx) applyUpdate(s *State, env *SpecEnv, u *Clause) {
	parts := strings.SplitN(u.Text, "=", 2)
	if len(parts) != 2 {
		specFail("bad updates clause %q", u.Text)
	}
	lhs, err := parseExprText(parts[0])
	if err != nil {
		specFail("%v", err)
	}
	rhs, err := parseExprText(parts[1])
	if err != nil {
		specFail("%v", err)
	}
	sel, ok := lhs.(*ast.SelectorExpr)
	if !ok {
		specFail("updates: lhs must be x.ghost")
	}
	base := env.eval(sel.X)
	gf := c.eng.ghostField(base.Type(), sel.Sel.Name)
	if gf == nil {
		specFail("updates: %s is not a ghost field", sel.Sel.Name)
	}
	v := env.eval(rhs)
	var t string
	switch x := v.(type) {
	case GhostSetV:
		t = x.Term
	case Scalar:
		t = x.T
	case GhostMapV:
		t = x.Term
	default:
		specFail("updates: unsupported value")
	}
	name := ghostHeapName(gf)
	hs := c.ghostHeapSort(gf)
	h := c.heapTerm(s, name, hs)
	c.setHeap(s, name, hs, fmt.Sprintf("(store %s %s %s)", h, env.refOf(base), t))
}

// ---------- maps ----------

type mapHeap struct{ name, sort string }

func (c *Ctx) mapKeySort(mt *types.Map) Sort {
	ks, ok := c.ar.sortOfScalar(mt.Key())
	if !ok {
		if _, isIface := mt.Key().Underlying().(*types.Interface); isIface {
			unsup("map with interface key")
		}
		unsup("map key type %s", mt.Key())
	}
	return ks
}

func (c *Ctx) mapHeaps(mt *types.Map) []mapHeap {
	ks := c.mapKeySort(mt)
	base := "M:" + typeName(mt)
	hs := []mapHeap{{base + "#present", fmt.Sprintf("(Array Ref (Array %s Bool))", ks)}, {base + "#card", "(Array Ref Int)"}}
	for _, cp := range c.mapValComps(mt.Elem()) {
		hs = append(hs, mapHeap{base + "#val" + cp.Path, fmt.Sprintf("(Array Ref (Array %s %s))", ks, cp.S)})
	}
	return hs
}

// mapValComps flattens the value type of a map (structs are flattened recursively).
func (c *Ctx) mapValComps(t types.Type) []comp {
	if st := structOf(t); st != nil {
		var out []comp
		for i := 0; i < st.NumFields(); i++ {
			for _, cp := range c.mapValComps(st.Field(i).Type()) {
				out = append(out, comp{"." + st.Field(i).Name() + cp.Path, cp.S})
			}
		}
		return out
	}
	if at, ok := t.Underlying().(*types.Array); ok {
		if es, ok := c.ar.sortOfScalar(at.Elem()); ok {
			return []comp{{"", Sort(fmt.Sprintf("(Array %s %s)", c.ar.idxSort(), es))}}
		}
	}
	cs := c.ar.comps(t)
	if cs == nil {
		unsup("map value type %s", t)
	}
	return cs
}

func (c *Ctx) mapHeapTerm(s *State, heap map[string]string, name, sort string) string {
	if heap != nil {
		if t, ok := heap[name]; ok {
			return t
		}
		c.heapSorts[name] = sort
		c.declGlobal("heap:"+name, fmt.Sprintf("(declare-const %s %s)", q(name+"@0"), sort))
		return q(name + "@0")
	}
	return c.heapTerm(s, name, sort)
}

func (c *Ctx) keyTerm(k Val) string {
	switch x := k.(type) {
	case Scalar:
		return x.T
	}
	unsup("map key %T", k)
	return ""
}

// mapRead returns (value, presentTerm).
func (c *Ctx) mapRead(s *State, heap map[string]string, m string, mt *types.Map, k Val) (Val, string) {
	ks := c.mapKeySort(mt)
	base := "M:" + typeName(mt)
	kt := c.keyTerm(k)
	if sc, ok := k.(Scalar); ok && sc.S == SInt && c.ar.bv {
		if n, ok := isNumeral(sc.T); ok {
			ii, _ := isIntType(mt.Key())
			kt = c.ar.lit(n, ii)
		}
	}
	ph := c.mapHeapTerm(s, heap, base+"#present", fmt.Sprintf("(Array Ref (Array %s Bool))", ks))
	present := fmt.Sprintf("(select (select %s %s) %s)", ph, m, kt)
	// representation fact of Go maps: a present key means a non-empty map; nil maps are empty
	chh := c.mapHeapTerm(s, heap, base+"#card", "(Array Ref Int)")
	if fact := fmt.Sprintf("(and (=> %s (>= (select %s %s) 1)) (=> (= %s rnil) (not %s)))", present, chh, m, m, present); !strings.Contains(fact, "!q") {
		c.assume(s, fact)
	}
	val := c.mapValAt(s, heap, base, ks, m, kt, mt.Elem(), "")
	return val, present
}

func (c *Ctx) mapValAt(s *State, heap map[string]string, base string, ks Sort, m, kt string, t types.Type, path string) Val {
	if st := structOf(t); st != nil {
		sv := StructV{Ty: t}
		for i := 0; i < st.NumFields(); i++ {
			sv.F = append(sv.F, c.mapValAt(s, heap, base, ks, m, kt, st.Field(i).Type(), path+"."+st.Field(i).Name()))
		}
		return sv
	}
	if at, ok := t.Underlying().(*types.Array); ok {
		es, ok := c.ar.sortOfScalar(at.Elem())
		if !ok {
			unsup("map value array of non-scalar elements")
		}
		as := fmt.Sprintf("(Array %s %s)", c.ar.idxSort(), es)
		h := c.mapHeapTerm(s, heap, base+"#val"+path, fmt.Sprintf("(Array Ref (Array %s %s))", ks, as))
		return ArrayV{Term: fmt.Sprintf("(select (select %s %s) %s)", h, m, kt), Ty: t}
	}
	cs := c.ar.comps(t)
	rd := func(cp comp) string {
		h := c.mapHeapTerm(s, heap, base+"#val"+path+cp.Path, fmt.Sprintf("(Array Ref (Array %s %s))", ks, cp.S))
		return fmt.Sprintf("(select (select %s %s) %s)", h, m, kt)
	}
	switch t.Underlying().(type) {
	case *types.Slice:
		return SliceV{rd(cs[0]), rd(cs[1]), rd(cs[2]), rd(cs[3]), t}
	case *types.Interface:
		return IfaceV{rd(cs[0]), rd(cs[1]), rd(cs[2]), t}
	}
	return Scalar{rd(cs[0]), cs[0].S, t}
}

func (c *Ctx) mapValStore(s *State, base string, ks Sort, m, kt string, t types.Type, path string, v Val) {
	if st := structOf(t); st != nil {
		sv := v.(StructV)
		for i := 0; i < st.NumFields(); i++ {
			c.mapValStore(s, base, ks, m, kt, st.Field(i).Type(), path+"."+st.Field(i).Name(), sv.F[i])
		}
		return
	}
	if at, ok := t.Underlying().(*types.Array); ok {
		es, _ := c.ar.sortOfScalar(at.Elem())
		as := fmt.Sprintf("(Array %s %s)", c.ar.idxSort(), es)
		av, ok := v.(ArrayV)
		if !ok {
			unsup("map store of non-array value into array component")
		}
		name := base + "#val" + path
		hs := fmt.Sprintf("(Array Ref (Array %s %s))", ks, as)
		h := c.heapTerm(s, name, hs)
		c.setHeap(s, name, hs, fmt.Sprintf("(store %s %s (store (select %s %s) %s %s))", h, m, h, m, kt, av.Term))
		return
	}
	cs := c.ar.comps(t)
	wr := func(cp comp, val string) {
		name := base + "#val" + path + cp.Path
		hs := fmt.Sprintf("(Array Ref (Array %s %s))", ks, cp.S)
		h := c.heapTerm(s, name, hs)
		c.setHeap(s, name, hs, fmt.Sprintf("(store %s %s (store (select %s %s) %s %s))", h, m, h, m, kt, val))
	}
	switch x := v.(type) {
	case SliceV:
		wr(cs[0], x.Arr)
		wr(cs[1], x.Off)
		wr(cs[2], x.Len)
		wr(cs[3], x.Cap)
	case IfaceV:
		wr(cs[0], x.Tag)
		wr(cs[1], x.PRef)
		wr(cs[2], x.PInt)
	case Scalar:
		wr(cs[0], x.T)
	case ClosureV:
		wr(cs[0], x.Term)
	case LocV:
		wr(cs[0], c.locToRef(x))
	default:
		unsup("map store of %T", v)
	}
}

func (c *Ctx) mapCard(s *State, heap map[string]string, m string, mt *types.Map) string {
	base := "M:" + typeName(mt)
	h := c.mapHeapTerm(s, heap, base+"#card", "(Array Ref Int)")
	t := fmt.Sprintf("(select %s %s)", h, m)
	if !strings.Contains(t, "!q") {
		c.assume(s, fmt.Sprintf("(and (>= %s 0) (=> (= %s rnil) (= %s 0)))", t, m, t))
	}
	return c.intFromMath(t)
}

func (c *Ctx) mapInitEmpty(s *State, m string, mt *types.Map) {
	ks := c.mapKeySort(mt)
	base := "M:" + typeName(mt)
	ps := fmt.Sprintf("(Array Ref (Array %s Bool))", ks)
	ph := c.heapTerm(s, base+"#present", ps)
	c.setHeap(s, base+"#present", ps, fmt.Sprintf("(store %s %s ((as const (Array %s Bool)) false))", ph, m, ks))
	ch := c.heapTerm(s, base+"#card", "(Array Ref Int)")
	c.setHeap(s, base+"#card", "(Array Ref Int)", fmt.Sprintf("(store %s %s 0)", ch, m))
}

func (c *Ctx) mapUpdate(s *State, fr *Frame, x *ssa.MapUpdate) {
	m := c.val(s, x.Map).(Scalar)
	mt := x.Map.Type().Underlying().(*types.Map)
	k := c.val(s, x.Key)
	v := c.val(s, x.Value)
	c.derefCheck(s, x, m)
	ks := c.mapKeySort(mt)
	base := "M:" + typeName(mt)
	kt := c.keyTerm(k)
	ps := fmt.Sprintf("(Array Ref (Array %s Bool))", ks)
	ph := c.heapTerm(s, base+"#present", ps)
	was := c.bind(s, "waspresent", SBool, fmt.Sprintf("(select (select %s %s) %s)", ph, m.T, kt))
	c.setHeap(s, base+"#present", ps, fmt.Sprintf("(store %s %s (store (select %s %s) %s true))", ph, m.T, ph, m.T, kt))
	ch := c.heapTerm(s, base+"#card", "(Array Ref Int)")
	c.setHeap(s, base+"#card", "(Array Ref Int)", fmt.Sprintf("(store %s %s (ite %s (select %s %s) (+ (select %s %s) 1)))", ch, m.T, was, ch, m.T, ch, m.T))
	c.mapValStore(s, base, ks, m.T, kt, mt.Elem(), "", v)
}

func (c *Ctx) mapDelete(s *State, m string, mt *types.Map, k Val) {
	ks := c.mapKeySort(mt)
	base := "M:" + typeName(mt)
	kt := c.keyTerm(k)
	ps := fmt.Sprintf("(Array Ref (Array %s Bool))", ks)
	ph := c.heapTerm(s, base+"#present", ps)
	was := c.bind(s, "waspresent", SBool, fmt.Sprintf("(select (select %s %s) %s)", ph, m, kt))
	c.setHeap(s, base+"#present", ps, fmt.Sprintf("(store %s %s (store (select %s %s) %s false))", ph, m, ph, m, kt))
	ch := c.heapTerm(s, base+"#card", "(Array Ref Int)")
	c.setHeap(s, base+"#card", "(Array Ref Int)", fmt.Sprintf("(store %s %s (ite %s (- (select %s %s) 1) (select %s %s)))", ch, m, was, ch, m, ch, m))
}

func (c *Ctx) lookup(s *State, fr *Frame, x *ssa.Lookup) {
	if mt, ok := x.X.Type().Underlying().(*types.Map); ok {
		m := c.val(s, x.X).(Scalar)
		k := c.val(s, x.Index)
		val, present := c.mapRead(s, nil, m.T, mt, k)
		pn := c.bind(s, "present", SBool, present)
		// card >= 1 when present; nil map has nothing present
		c.assume(s, fmt.Sprintf("(=> %s (>= %s 1))", pn, c.mapCardMath(s, m.T, mt)))
		z := c.zeroVal(s, mt.Elem())
		res := c.iteVal(s, pn, val, z)
		c.typeRangeAssume(s, res)
		if x.CommaOk {
			fr.regs[x] = TupleV{E: []Val{res, Scalar{pn, SBool, types.Typ[types.Bool]}}, Ty: x.Type()}
		} else {
			fr.regs[x] = res
		}
		return
	}
	// string index
	sv := c.val(s, x.X).(Scalar)
	i := c.toIdx(c.val(s, x.Index).(Scalar))
	c.oblige(s, "safe:index", c.siteOf(x, "index"), c.inBounds(i, c.strLen(sv.T)), "string index in range", x.Pos())
	fr.regs[x] = c.freshVal(s, "strbyte", x.Type())
}

func (c *Ctx) mapCardMath(s *State, m string, mt *types.Map) string {
	base := "M:" + typeName(mt)
	h := c.heapTerm(s, base+"#card", "(Array Ref Int)")
	return fmt.Sprintf("(select %s %s)", h, m)
}

// ---------- range over maps/strings ----------

type RangeIterV struct {
	Map     string
	MT      *types.Map
	Visited string // term of sort (Array K Bool): keys already yielded
	Count   string // mathematical Int: number of keys yielded so far (contracts: visitedcount)
	PH0     string // the map's presence heap when the range started (the count equals the cardinality at the end only if the loop left the map alone)
	Ty      types.Type
}

func (r RangeIterV) Type() types.Type { return r.Ty }

func (c *Ctx) visitedSort(mt *types.Map) Sort {
	return Sort(fmt.Sprintf("(Array %s Bool)", c.mapKeySort(mt)))
}

func (c *Ctx) rangeInit(s *State, fr *Frame, x *ssa.Range) {
	mt, ok := x.X.Type().Underlying().(*types.Map)
	if !ok {
		unsup("range over %s", x.X.Type())
	}
	m := c.val(s, x.X).(Scalar)
	ks := c.mapKeySort(mt)
	empty := fmt.Sprintf("((as const (Array %s Bool)) false)", ks)
	base0 := "M:" + typeName(mt)
	ph0 := c.heapTerm(s, base0+"#present", fmt.Sprintf("(Array Ref (Array %s Bool))", ks))
	fr.regs[x] = RangeIterV{Map: m.T, MT: mt, Visited: empty, Count: "0", PH0: ph0, Ty: x.Type()}
	fr.src["visited"] = GhostSetV{Term: empty}
	fr.src["visitedcount"] = Scalar{"0", SInt, types.Typ[types.Int]}
}

// rangeNext: the next key of a map range is an arbitrary present key that was not yielded before; the range ends
// when every present key has been yielded (entries deleted during the range are simply not yielded).
func (c *Ctx) rangeNext(s *State, fr *Frame, x *ssa.Next) []*State {
	if x.IsString {
		unsup("range over string")
	}
	it, ok := c.val(s, x.Iter).(RangeIterV)
	if !ok {
		unsup("Next on non-iterator")
	}
	mt := it.MT
	ks := c.mapKeySort(mt)
	visited := it.Visited
	okc := c.freshConst(s, "rangeok", SBool)
	k := c.freshVal(s, "rangekey", mt.Key()).(Scalar)
	val, present := c.mapRead(s, nil, it.Map, mt, k)
	c.assume(s, fmt.Sprintf("(=> %s (and %s (not (select %s %s))))", okc, present, visited, k.T))
	base := "M:" + typeName(mt)
	ph := c.heapTerm(s, base+"#present", fmt.Sprintf("(Array Ref (Array %s Bool))", ks))
	c.assume(s, fmt.Sprintf("(=> (not %s) (forall ((k %s)) (! (=> (select (select %s %s) k) (select %s k)) :pattern ((select (select %s %s) k)))))", okc, ks, ph, it.Map, visited, ph, it.Map))
	nv := c.bind(s, "visited", c.visitedSort(mt), fmt.Sprintf("(ite %s (store %s %s true) %s)", okc, visited, k.T, visited))
	it.Visited = nv
	if it.Count != "" {
		// every yield counts one key; when the range ends and the loop never touched the map, every key was yielded once
		if ph == it.PH0 {
			ch := c.heapTerm(s, base+"#card", "(Array Ref Int)")
			c.assume(s, fmt.Sprintf("(=> (not %s) (= %s (select %s %s)))", okc, it.Count, ch, it.Map))
		}
		it.Count = c.bind(s, "visitedcount", SInt, fmt.Sprintf("(ite %s (+ %s 1) %s)", okc, it.Count, it.Count))
		fr.src["visitedcount"] = Scalar{it.Count, SInt, types.Typ[types.Int]}
	}
	fr.regs[x.Iter] = it
	fr.src["visited"] = GhostSetV{Term: nv}
	c.typeRangeAssume(s, val)
	fr.regs[x] = TupleV{E: []Val{Scalar{okc, SBool, types.Typ[types.Bool]}, k, val}, Ty: x.Type()}
	return nil
}

// ownPanicCond: the disjunction of the verified function's own "panics when" conditions, evaluated at entry.
func (c *Ctx) ownPanicCond(s *State) string {
	if c.fc == nil || len(c.fc.PanicsWhen) == 0 || c.entryEnvVars == nil {
		return ""
	}
	env := c.newSpecEnv(s, nil)
	if c.fn != nil && c.fn.Pkg != nil {
		env.pkg = c.fn.Pkg.Pkg
	}
	env.vars = c.entryEnvVars
	env.heap = map[string]string{}
	env.old = map[string]string{}
	var ds []string
	for _, p := range c.fc.PanicsWhen {
		ds = append(ds, env.evalBool(p.Expr))
	}
	if len(ds) == 1 {
		return ds[0]
	}
	return "(or " + strings.Join(ds, " ") + ")"
}

// modPremises returns, for heap `name`, the conjuncts saying that (r[, j]) is outside the modifies set.
func (c *Ctx) modPremises(name string, mods []modEntry, r, j string) (prem []string, whole bool, needIdx bool) {
	for _, m := range mods {
		if m.heap != name {
			continue
		}
		switch {
		case m.kind == modWholeHeap:
			whole = true
		case m.kind == modElemAt:
			needIdx = true
			prem = append(prem, fmt.Sprintf("(not (and (= %s %s) (= %s %s)))", r, m.ref, j, m.idx))
		case m.kind == modElems && m.nested:
			prem = append(prem, "(not "+nestedElemPred(r, m.ref)+")")
		case m.kind == modElems && m.lo != "":
			needIdx = true
			prem = append(prem, fmt.Sprintf("(not (and (= %s %s) %s %s))", r, m.ref, c.idxCmp(token.LEQ, m.lo, j), c.idxCmp(token.LSS, j, m.hi)))
		case m.kind == modSingle, m.kind == modElems && isElemHeap(name), m.kind == modMapAll:
			prem = append(prem, fmt.Sprintf("(not (= %s %s))", r, m.ref))
		case m.kind == modElems:
			prem = append(prem, fmt.Sprintf("(not (and ((_ is mkelem) %s) (= (earr %s) %s)))", r, r, m.ref))
		}
	}
	return
}

// havocLoop: at a loop head every heap that may have been written so far or is named in the loop's modifies set gets a
// new version that agrees with the old one outside the modifies set and outside objects allocated since loop entry.
func (c *Ctx) havocLoop(s *State, mods []modEntry, allocBase string) {
	if modsAll(mods) {
		// a loop (or range-over-func body) that is DECLARED to modify everything: sound, and not "a call with an unspecified frame"
		prev := c.havocAllDeclared
		c.havocAllDeclared = true
		c.havocAllKeeping(s, false)
		c.havocAllDeclared = prev
		return
	}
	names := map[string]string{}
	for n := range s.touched {
		names[n] = c.heapSorts[n]
	}
	for _, m := range mods {
		names[m.heap] = m.sort
	}
	var ks []string
	for n := range names {
		ks = append(ks, n)
	}
	sort.Strings(ks)
	for _, name := range ks {
		hs := names[name]
		old := c.heapTerm(s, name, hs)
		prem, whole, needIdx := c.modPremises(name, mods, "r", "j")
		n := c.havocHeapNamed(s, name, hs)
		if whole {
			continue
		}
		prem = append([]string{fmt.Sprintf("(< (rootid r) %s)", allocBase)}, prem...)
		if needIdx {
			js := firstIndexSort(innerSort(hs))
			c.assume(s, fmt.Sprintf("(forall ((r Ref) (j %s)) (! (=> (and %s) (= (select (select %s r) j) (select (select %s r) j))) :pattern ((select (select %s r) j))))", js, strings.Join(prem, " "), n, old, n))
		} else {
			c.assume(s, fmt.Sprintf("(forall ((r Ref)) (! (=> (and %s) (= (select %s r) (select %s r))) :pattern ((select %s r))))", strings.Join(prem, " "), n, old, n))
		}
	}
}

// fnValueName names a call through a function value for the ghost call log: "field:<name>" when the value was loaded
// from a struct field, "param:<name>" for a function parameter, "local:<name>" otherwise.
func fnValueName(v ssa.Value) string {
	switch x := v.(type) {
	case *ssa.UnOp:
		if fa, ok := x.X.(*ssa.FieldAddr); ok {
			st := fa.X.Type().Underlying().(*types.Pointer).Elem().Underlying().(*types.Struct)
			return "field:" + st.Field(fa.Field).Name()
		}
		if fv, ok := x.X.(*ssa.FreeVar); ok {
			return "free:" + fv.Name()
		}
	case *ssa.Field:
		st := x.X.Type().Underlying().(*types.Struct)
		return "field:" + st.Field(x.Field).Name()
	case *ssa.Parameter:
		return "param:" + x.Name()
	case *ssa.FreeVar:
		return "free:" + x.Name()
	}
	return "local:" + v.Name()
}

// appendOneStruct: append(s, x) of exactly one struct element is executed on two forked paths, which keeps the heap
// updates quantifier-free where possible:
//   in place  (len < cap): plain stores of the element's fields at index len of the same backing array;
//   growing   (len == cap): a fresh backing array whose first len elements equal the old ones (one quantified copy
//             per field heap), then plain stores for the new element.
func (c *Ctx) appendOneStruct(s *State, fr *Frame, x *ssa.Call, args []Val) []*State {
	dst, ok := args[0].(SliceV)
	if !ok {
		return nil
	}
	el := dst.Ty.Underlying().(*types.Slice).Elem()
	if structOf(el) == nil {
		// scalar / interface / slice elements: forked only on request (opt forkappend), since each fork doubles the paths
		if c.fc == nil || c.fc.Opts["forkappend"] == "" || isAggregate(el) {
			return nil
		}
	}
	src, ok := args[1].(SliceV)
	if !ok || src.Len != c.ar.idx(1) {
		return nil
	}
	srcElemPtr := c.elemAddr(s, src.Arr, c.elemIdx(src.Off, c.ar.idx(0)), el)
	val := c.loadAt(s, nil, srcElemPtr, el)
	newLen := c.bind(s, "applen", c.ar.idxSort(), c.idxAdd(dst.Len, c.ar.idx(1)))
	fits := c.idxCmp(token.LEQ, newLen, dst.Cap)
	// path 1: in place
	s1 := s
	s2 := s.clone()
	c.nextPathID++
	s2.pathID = c.nextPathID
	{
		c.assume(s1, fits)
		f1 := s1.top()
		ptr := c.elemAddr(s1, dst.Arr, c.elemIdx(dst.Off, dst.Len), el)
		c.storeAt(s1, ptr, el, val)
		f1.regs[x] = SliceV{dst.Arr, dst.Off, newLen, dst.Cap, dst.Ty}
	}
	// path 2: grow
	{
		c.assume(s2, simplifyNot(fits))
		f2 := s2.top()
		fresh := c.allocRef(s2)
		newCap := c.freshConst(s2, "appcap", c.ar.idxSort())
		c.assume(s2, c.idxCmp(token.GEQ, newCap, newLen))
		c.assume(s2, c.idxCmp(token.LEQ, newCap, c.ar.idx(1<<40)))
		if structOf(el) != nil {
			c.copyStructElems(s2, fresh, dst, el)
		} else {
			c.copyScalarElems(s2, fresh, dst, el)
		}
		ptr := c.elemAddr(s2, fresh, dst.Len, el)
		c.storeAt(s2, ptr, el, val)
		f2.regs[x] = SliceV{fresh, c.ar.idx(0), newLen, newCap, dst.Ty}
	}
	return []*State{s1, s2}
}

// copyScalarElems: the first len(dst) elements of the fresh array (offset 0) equal dst's elements (non-struct elements).
func (c *Ctx) copyScalarElems(s *State, fresh string, dst SliceV, el types.Type) {
	for _, cp := range c.ar.comps(el) {
		name := elemHeapName(el, cp.Path)
		hs := c.elemHeapSort(cp.S)
		h := c.heapTerm(s, name, hs)
		inner := c.freshConst(s, "growelems", Sort(fmt.Sprintf("(Array %s %s)", c.ar.idxSort(), cp.S)))
		k := "k"
		c.assume(s, fmt.Sprintf("(forall ((k %s)) (! (=> (and %s %s) (= (select %s k) (select (select %s %s) %s))) :pattern ((select %s k))))",
			c.ar.idxSort(), c.idxCmp(token.LEQ, c.ar.idx(0), k), c.idxCmp(token.LSS, k, dst.Len), inner, h, dst.Arr, c.elemIdx(dst.Off, k), inner))
		c.setHeap(s, name, hs, fmt.Sprintf("(store %s %s %s)", h, fresh, inner))
	}
}

// copyStructElems: the first len(dst) elements of the fresh array `fresh` (offset 0) equal dst's elements.
func (c *Ctx) copyStructElems(s *State, fresh string, dst SliceV, el types.Type) {
	var walk func(t types.Type, path func(base string) string)
	walk = func(t types.Type, path func(base string) string) {
		u := structOf(t)
		for i := 0; i < u.NumFields(); i++ {
			ft := u.Field(i).Type()
			ii := i
			if structOf(ft) != nil && isAggregate(ft) {
				walk(ft, func(base string) string { return fmt.Sprintf("(mksub %s %d)", path(base), ii) })
				continue
			}
			k := "k"
			newRef := path(fmt.Sprintf("(mkelem %s %s)", fresh, k))
			oldRef := path(fmt.Sprintf("(mkelem %s %s)", dst.Arr, c.elemIdx(dst.Off, k)))
			guard := fmt.Sprintf("(and %s %s)", c.idxCmp(token.LEQ, c.ar.idx(0), k), c.idxCmp(token.LSS, k, dst.Len))
			if at, ok := ft.Underlying().(*types.Array); ok {
				es, ok := c.ar.sortOfScalar(at.Elem())
				if !ok {
					continue
				}
				name := elemHeapName(at.Elem(), "")
				hs := c.elemHeapSort(es)
				h := c.heapTerm(s, name, hs)
				n := c.havocHeapNamed(s, name, hs)
				aref := fmt.Sprintf("(mksub %s %d)", newRef, ii)
				oref := fmt.Sprintf("(mksub %s %d)", oldRef, ii)
				c.assume(s, fmt.Sprintf("(forall ((k %s)) (! (=> %s (= (select %s %s) (select %s %s))) :pattern ((select %s %s))))", c.ar.idxSort(), guard, n, aref, h, oref, n, aref))
				c.assume(s, fmt.Sprintf("(forall ((r Ref)) (! (=> (not (= (rootid r) (rootid %s))) (= (select %s r) (select %s r))) :pattern ((select %s r))))", fresh, n, h, n))
				continue
			}
			for _, cp := range c.ar.comps(ft) {
				name := fieldHeapName(typeName(t), u.Field(i).Name(), cp.Path)
				hs := fmt.Sprintf("(Array Ref %s)", cp.S)
				h := c.heapTerm(s, name, hs)
				n := c.havocHeapNamed(s, name, hs)
				c.assume(s, fmt.Sprintf("(forall ((k %s)) (! (=> %s (= (select %s %s) (select %s %s))) :pattern ((select %s %s))))", c.ar.idxSort(), guard, n, newRef, h, oldRef, n, newRef))
				// only objects inside the fresh array change
				c.assume(s, fmt.Sprintf("(forall ((r Ref)) (! (=> (not (= (rootid r) (rootid %s))) (= (select %s r) (select %s r))) :pattern ((select %s r))))", fresh, n, h, n))
			}
		}
	}
	walk(el, func(base string) string { return base })
}
