package main

import (
	"encoding/json"
	"fmt"
	"os"
	"os/exec"
	"path/filepath"
	"regexp"
	"strconv"
	"strings"
	"time"
)

// Bounded stand-ins: for functions that cannot be brought within the verifier's reach, a bounded exhaustive check of the
// REAL function (an in-package Go test injected with -overlay) stands in. It is labelled bounded in the evidence and is
// never counted among the discharged obligations. Declared in /verif/bounded/<PID>/bounded.json.
type BoundedSpec struct {
	Name        string            `json:"name"`
	Pkg         string            `json:"pkg"`   // package directory relative to the repository root ("." for the root package)
	Files       []string          `json:"files"` // test files (relative to the bounded.json) injected into the package
	Run         string            `json:"run"`   // -run regexp
	StandsInFor []string          `json:"stands_in_for"`
	Bound       map[string]string `json:"bound"`     // tier -> stated bound
	TimeoutS    map[string]int    `json:"timeout_s"` // tier -> go test timeout
}

type BoundedResult struct {
	Spec     BoundedSpec
	Cases    int64
	Stats    []string
	Fails    []string
	Status   string // ok | fail | build-failed | timeout
	Output   string
	Seconds  float64
}

var boundedStatRe = regexp.MustCompile(`cases=(\d+)`)

func loadBounded(pid string) []BoundedSpec {
	var specs []BoundedSpec
	readJSON(filepath.Join(verifRoot, "bounded", pid, "bounded.json"), &specs)
	return specs
}

func runBounded(repo, pid, tier string, sp BoundedSpec) *BoundedResult {
	res := &BoundedResult{Spec: sp}
	dir, err := os.MkdirTemp("", "govc-bounded")
	if err != nil {
		res.Status = "build-failed"
		res.Output = err.Error()
		return res
	}
	defer os.RemoveAll(dir)
	pkgDir := filepath.Join(repo, sp.Pkg)
	repl := map[string]string{}
	for _, f := range sp.Files {
		repl[filepath.Join(pkgDir, filepath.Base(f))] = filepath.Join(verifRoot, "bounded", pid, f)
	}
	ovb, _ := json.Marshal(map[string]map[string]string{"Replace": repl})
	ovFile := filepath.Join(dir, "ov.json")
	os.WriteFile(ovFile, ovb, 0o644)
	target := "./" + sp.Pkg
	if sp.Pkg == "." || sp.Pkg == "" {
		target = "."
	}
	to := sp.TimeoutS[tier]
	if to == 0 {
		to = 600
	}
	cmd := exec.Command("go", "test", "-overlay", ovFile, "-vet=off", "-count=1", "-timeout", strconv.Itoa(to)+"s", "-v", "-run", sp.Run, target)
	cmd.Dir = repo
	cmd.Env = append(loaderEnv(), "GOEXPERIMENT=synctest", "VERIF_BOUND_TIER="+tier)
	t0 := time.Now()
	done := make(chan struct{})
	var out []byte
	go func() { out, _ = cmd.CombinedOutput(); close(done) }()
	select {
	case <-done:
	case <-time.After(time.Duration(to+60) * time.Second):
		if cmd.Process != nil {
			cmd.Process.Kill()
		}
		res.Status = "timeout"
		res.Seconds = time.Since(t0).Seconds()
		return res
	}
	res.Seconds = time.Since(t0).Seconds()
	o := string(out)
	for _, ln := range strings.Split(o, "\n") {
		if strings.HasPrefix(ln, "VERIF-BOUNDED-STAT") {
			res.Stats = append(res.Stats, strings.TrimPrefix(ln, "VERIF-BOUNDED-STAT "))
			if m := boundedStatRe.FindStringSubmatch(ln); m != nil {
				n, _ := strconv.ParseInt(m[1], 10, 64)
				res.Cases += n
			}
		}
		if strings.HasPrefix(ln, "VERIF-BOUNDED-FAIL") {
			res.Fails = append(res.Fails, strings.TrimPrefix(ln, "VERIF-BOUNDED-FAIL "))
		}
	}
	res.Output = truncate(o, 6000)
	switch {
	case len(res.Fails) > 0:
		res.Status = "fail"
	case strings.Contains(o, "[build failed]") || strings.Contains(o, "[setup failed]"):
		res.Status = "build-failed"
	case strings.Contains(o, "panic: test timed out"):
		res.Status = "timeout"
	case strings.Contains(o, "\nok ") || strings.HasPrefix(o, "ok "):
		res.Status = "ok"
	case strings.Contains(o, "--- FAIL") || strings.Contains(o, "panic:"):
		// the harness itself panicked inside the real code: a failing input exists (the stack names it)
		res.Status = "fail"
		res.Fails = append(res.Fails, "harness aborted: "+truncate(o, 600))
	default:
		res.Status = "build-failed"
	}
	return res
}

func writeBoundedReplay(dir, pid string, r *BoundedResult, tier string) string {
	os.MkdirAll(dir, 0o755)
	p := filepath.Join(dir, "bounded-"+sanitize(r.Spec.Name)+".json")
	doc := map[string]interface{}{
		"property": pid, "kind": "bounded stand-in (real code executed; each failing sequence below is a concrete failing input)",
		"name": r.Spec.Name, "stands_in_for": r.Spec.StandsInFor, "bound": r.Spec.Bound[tier],
		"failing_inputs": r.Fails, "status": r.Status, "go_test_output": r.Output,
		"rerun": fmt.Sprintf("cd /verif && ./check %s %s", pid, tier),
	}
	b, _ := json.MarshalIndent(doc, "", " ")
	os.WriteFile(p, b, 0o644)
	return p
}

// cmdReplay re-decides the obligation recorded in a replay file against the current working tree: it re-runs the
// property's quick check (VCs are regenerated from /repo) and reports that obligation only.
func cmdReplay(args []string) int {
	if len(args) < 1 {
		fmt.Fprintln(os.Stderr, "usage: govc replay <replay file>")
		return 2
	}
	var doc map[string]interface{}
	if err := readJSON(args[0], &doc); err != nil {
		fmt.Fprintln(os.Stderr, "cannot read replay file:", err)
		return 2
	}
	pid, _ := doc["property"].(string)
	obl, _ := doc["obligation"].(string)
	if name, ok := doc["name"].(string); ok && obl == "" {
		obl = "bounded:" + name
	}
	if pid == "" || obl == "" {
		fmt.Fprintln(os.Stderr, "replay file names no property/obligation")
		return 2
	}
	cmd := exec.Command(os.Args[0], "check", pid, "quick")
	cmd.Env = os.Environ()
	out, _ := cmd.CombinedOutput()
	hit := false
	for _, ln := range strings.Split(string(out), "\n") {
		if strings.HasPrefix(ln, "VIOLATION ") && strings.Contains(ln, "obligation="+obl) {
			fmt.Println(ln)
			hit = true
		}
		if strings.HasPrefix(ln, "bounded-fail ") && strings.HasPrefix(obl, "bounded:") {
			fmt.Println(ln)
		}
		if strings.HasPrefix(ln, "KNOWN-FINDING:") && strings.Contains(ln, obl) {
			fmt.Println(ln)
		}
	}
	if hit {
		return 1
	}
	fmt.Printf("REPLAY property=%s obligation=%s: not reproduced, the obligation is discharged on the current tree\n", pid, obl)
	return 0
}
