package main

// Built-in treatment of library functions that the translation abstracts (DESIGN §2.3 "dropped / abstracted").

import (
	"os"
	"fmt"
	"go/token"
	"go/types"
	"strings"

	"golang.org/x/tools/go/ssa"
)

type intrinsicFn func(c *Ctx, s *State, fr *Frame, x ssa.Instruction, fn *ssa.Function, args []Val) Val

func noop(c *Ctx, s *State, fr *Frame, x ssa.Instruction, fn *ssa.Function, args []Val) Val {
	return nil
}

func freshResult(c *Ctx, s *State, fr *Frame, x ssa.Instruction, fn *ssa.Function, args []Val) Val {
	return c.freshResults(s, "r."+fn.Name(), fn.Signature.Results())
}

// freshError: returns a non-nil error of an opaque dynamic type.
func freshError(c *Ctx, s *State, fr *Frame, x ssa.Instruction, fn *ssa.Function, args []Val) Val {
	ref := c.allocRef(s)
	return IfaceV{fmt.Sprintf("%d", c.eng.typeIDByName("opaque-error")), ref, "0", fn.Signature.Results().At(0).Type()}
}

var intrinsics = map[string]intrinsicFn{
	"(*sync.Mutex).Lock":      noop,
	"(*sync.Mutex).Unlock":    noop,
	"(*sync.Mutex).TryLock":   freshResult,
	"(*sync.RWMutex).Lock":    noop,
	"(*sync.RWMutex).Unlock":  noop,
	"(*sync.RWMutex).RLock":   noop,
	"(*sync.RWMutex).RUnlock": noop,
	"fmt.Sprintf":             freshResult,
	"fmt.Sprint":              freshResult,
	"fmt.Sprintln":            freshResult,
	"fmt.Errorf":              freshError,
	"errors.New":              freshError,
	"errors.Is":               freshResult,
	"time.Now":                freshResult,
	"time.Since":              freshResult,
	"runtime.Gosched":         noop,
}

func (c *Ctx) intrinsicPattern(s *State, fr *Frame, x ssa.Instruction, fn *ssa.Function, full string, args []Val) (Val, bool) {
	// sync/atomic typed values: modelled as a cell keyed by the receiver reference
	if strings.HasPrefix(full, "(*sync/atomic.") {
		rest := full[len("(*sync/atomic."):]
		k := strings.Index(rest, ").")
		if k < 0 {
			return nil, false
		}
		tname, m := rest[:k], rest[k+2:]
		recv, ok := args[0].(Scalar)
		if !ok {
			unsup("atomic receiver %T", args[0])
		}
		var vt types.Type
		switch {
		case tname == "Bool":
			vt = types.Typ[types.Bool]
		case tname == "Int64":
			vt = types.Typ[types.Int64]
		case tname == "Int32":
			vt = types.Typ[types.Int32]
		case tname == "Uint64":
			vt = types.Typ[types.Uint64]
		case tname == "Uint32":
			vt = types.Typ[types.Uint32]
		default:
			// Pointer[T], Value: unmodelled
			c.assumptions["sync/atomic."+tname+" values are unconstrained"] = true
			return c.freshResults(s, "atomic", fn.Signature.Results()), true
		}
		loc := LocV{Kind: LocField, Base: recv.T, Field: &fieldRef{Owner: "atomic." + tname, Name: "v", Ty: vt}, Ty: types.NewPointer(vt)}
		switch m {
		case "Load":
			v := c.loadAt(s, nil, loc, vt)
			c.typeRangeAssume(s, v)
			return v, true
		case "Store":
			c.storeAt(s, loc, vt, args[1])
			return nil, true
		case "Add":
			ii, _ := isIntType(vt)
			old := c.loadAt(s, nil, loc, vt).(Scalar)
			t, _ := c.ar.binop(token.ADD, old.T, args[1].(Scalar).T, ii, ii)
			nv := Scalar{c.bind(s, "atomicadd", old.S, t), old.S, vt}
			c.storeAt(s, loc, vt, nv)
			return nv, true
		case "Swap":
			old := c.loadAt(s, nil, loc, vt)
			c.storeAt(s, loc, vt, args[1])
			return old, true
		case "CompareAndSwap":
			old := c.loadAt(s, nil, loc, vt).(Scalar)
			eq := c.bind(s, "cas", SBool, fmt.Sprintf("(= %s %s)", old.T, args[1].(Scalar).T))
			nv := c.iteVal(s, eq, args[2], old)
			c.storeAt(s, loc, vt, nv)
			return Scalar{eq, SBool, types.Typ[types.Bool]}, true
		}
		return nil, false
	}
	// sort.Search(n, f) with f a function literal under contract: the binary search returns an index i in [0, n] with
	// f(i) (if i < n) and !f(i-1) (if i > 0) — the loop invariant of the standard library's implementation, which
	// holds for every predicate; minimality over all indices follows only for monotone predicates and is NOT assumed.
	if full == "sort.Search" && len(args) == 2 {
		if cl, ok := args[1].(ClosureV); ok {
			if pf, _ := cl.Fn.(*ssa.Function); pf != nil {
				if fc := c.eng.contractFor(pf); fc != nil {
					c.assumptions["sort.Search returns i in [0,n] with f(i) if i<n and !f(i-1) if i>0 (binary-search invariant of the Go standard library)"] = true
					n := args[0].(Scalar)
					ii, _ := isIntType(types.Typ[types.Int])
					i := Scalar{c.freshConst(s, "searchidx", c.ar.idxSort()), c.ar.idxSort(), types.Typ[types.Int]}
					c.assume(s, fmt.Sprintf("(and %s %s)", c.idxCmp(token.LEQ, c.ar.idx(0), i.T), c.idxCmp(token.LEQ, i.T, n.T)))
					bind := func() {
						c.extraContractVars = map[string]Val{}
						blanks := 0
						for k, fv := range pf.FreeVars {
							name := fv.Name()
							if name == "_" {
								name = blankFreeVarName(pf, fv, blanks)
								blanks++
							}
							if k < len(cl.Bindings) {
								c.extraContractVars[name] = SrcAddr{P: cl.Bindings[k], Ty: fv.Type()}
							}
						}
					}
					names := []string{pf.Params[0].Name()}
					// at i (guarded by i < n): evaluate the contract on a forked copy of the facts via implication
					apply := func(arg Scalar, guard string, want bool) {
						s2 := s.clone()
						c.assume(s2, guard) // the predicate is only evaluated at indices inside [0, n)
						base := len(s2.cmds)
						bind()
						r := c.applyContract(s2, fr, x, fc, relFuncName(pf), names, "", []Val{arg}, pf.Signature, pf.Pkg).(Scalar)
						// transfer the facts established on s2 (beyond s) under the guard
						var facts []string
						for _, cmd := range s2.cmds[base:] {
							if strings.HasPrefix(cmd, "(assert ") {
								facts = append(facts, strings.TrimSuffix(strings.TrimPrefix(cmd, "(assert "), ")"))
							} else {
								s.cmds = append(s.cmds, cmd) // declarations
							}
						}
						res := r.T
						if !want {
							res = "(not " + r.T + ")"
						}
						facts = append(facts, res)
						c.assume(s, fmt.Sprintf("(=> %s (and %s))", guard, strings.Join(facts, " ")))
					}
					apply(i, c.idxCmp(token.LSS, i.T, n.T), true)
					im1, _ := c.ar.binop(token.SUB, i.T, c.ar.litI(1, ii), ii, ii)
					apply(Scalar{im1, c.ar.idxSort(), types.Typ[types.Int]}, c.idxCmp(token.GTR, i.T, c.ar.idx(0)), false)
					return i, true
				}
			}
		}
	}
	// slices.SortFunc on a statically 2-element slice with a comparator under contract: pdqsort's insertion-sort base
	// case swaps iff cmp(s[1], s[0]) < 0 (stdlib implementation detail, recorded as an assumption).
	if os.Getenv("GOVC_DEBUG") != "" && strings.Contains(full, "SortFunc") {
		fmt.Fprintf(os.Stderr, "DEBUG sortfunc full=%q args=%T %T %+v\n", full, args[0], args[1], args[0])
	}
	if (full == "slices.SortFunc" || strings.HasPrefix(full, "slices.SortFunc[")) && len(args) == 2 {
		sl, ok1 := args[0].(SliceV)
		var cmpFn *ssa.Function
		switch f := args[1].(type) {
		case ClosureV:
			cmpFn, _ = f.Fn.(*ssa.Function)
		}
		if n, isLit := isNumeral(sl.Len); ok1 && isLit && n.Int64() == 2 && cmpFn != nil {
			if fc := c.eng.contractFor(cmpFn); fc != nil {
				c.assumptions["slices.SortFunc on 2 elements swaps iff cmp(s[1], s[0]) < 0 (insertion-sort base case of the Go standard library)"] = true
				et := sl.Ty.Underlying().(*types.Slice).Elem()
				l0 := c.elemAddr(s, sl.Arr, c.elemIdx(sl.Off, c.ar.idx(0)), et)
				l1 := c.elemAddr(s, sl.Arr, c.elemIdx(sl.Off, c.ar.idx(1)), et)
				e0 := c.loadAt(s, nil, l0, et)
				e1 := c.loadAt(s, nil, l1, et)
				names := make([]string, len(cmpFn.Params))
				for i, p := range cmpFn.Params {
					names[i] = p.Name()
				}
				s.calllog = append(s.calllog, relFuncName(cmpFn))
				r := c.applyContract(s, fr, x, fc, relFuncName(cmpFn), names, "", []Val{e1, e0}, cmpFn.Signature, cmpFn.Pkg).(Scalar)
				ii, _ := isIntType(types.Typ[types.Int])
				lt := c.ar.cmp(token.LSS, r.T, c.ar.litI(0, ii), ii)
				cond := c.bind(s, "sortswap", SBool, lt)
				c.storeAt(s, l0, et, c.iteVal(s, cond, e1, e0))
				c.storeAt(s, l1, et, c.iteVal(s, cond, e0, e1))
				return nil, true
			}
		}
	}
	if full == "(*sync.WaitGroup).Add" || full == "(*sync.WaitGroup).Done" {
		// bookkeeping for goroutine lifetimes: no effect on modelled state (same abstraction as mutexes: sequential semantics)
		c.assumptions["sync.WaitGroup.Add/Done are no-ops (goroutine lifetimes are not modelled)"] = true
		return nil, true
	}
	if strings.HasPrefix(full, "(*sync.Once).") || strings.HasPrefix(full, "(*sync.WaitGroup).") || strings.HasPrefix(full, "(*sync.Cond).") {
		unsup("sync primitive %s", full)
	}
	return nil, false
}
