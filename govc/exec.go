package main

import (
	"strconv"
	"os"
	"fmt"
	"go/ast"
	"go/constant"
	"go/token"
	"go/types"
	"sort"
	"strings"

	"golang.org/x/tools/go/ssa"
)

// SrcAddr wraps the address of a source-level variable (DebugRef with IsAddr).
type SrcAddr struct {
	P  Val
	Ty types.Type
}

func (s SrcAddr) Type() types.Type { return s.Ty }

type pathEnd struct{}

// funcInfo: static per-function loop structure.
type funcInfo struct {
	fn      *ssa.Function
	headers map[*ssa.BasicBlock]int                     // loop header -> ordinal
	inLoop  map[*ssa.BasicBlock]map[*ssa.BasicBlock]bool // header -> set of blocks in loop
}

func analyzeLoops(fn *ssa.Function) *funcInfo {
	fi := &funcInfo{fn: fn, headers: map[*ssa.BasicBlock]int{}, inLoop: map[*ssa.BasicBlock]map[*ssa.BasicBlock]bool{}}
	if len(fn.Blocks) == 0 {
		return fi
	}
	// back edges: b -> h where h dominates b
	for _, b := range fn.Blocks {
		for _, h := range b.Succs {
			if h.Dominates(b) {
				set := fi.inLoop[h]
				if set == nil {
					set = map[*ssa.BasicBlock]bool{h: true}
					fi.inLoop[h] = set
				}
				// natural loop: all blocks that reach b without passing h
				var stack []*ssa.BasicBlock
				if !set[b] {
					set[b] = true
					stack = append(stack, b)
				}
				for len(stack) > 0 {
					x := stack[len(stack)-1]
					stack = stack[:len(stack)-1]
					for _, p := range x.Preds {
						if !set[p] {
							set[p] = true
							stack = append(stack, p)
						}
					}
				}
			}
		}
	}
	var hs []*ssa.BasicBlock
	for h := range fi.inLoop {
		hs = append(hs, h)
	}
	// source order: by position of the loop statement where available, else block index
	sort.Slice(hs, func(i, j int) bool {
		pi, pj := loopPos(hs[i]), loopPos(hs[j])
		if pi != pj && pi != token.NoPos && pj != token.NoPos {
			return pi < pj
		}
		return hs[i].Index < hs[j].Index
	})
	for i, h := range hs {
		fi.headers[h] = i
	}
	return fi
}

func loopPos(h *ssa.BasicBlock) token.Pos {
	// smallest valid position among instructions of the loop header and its body-entry
	best := token.NoPos
	for _, in := range h.Instrs {
		if p := in.Pos(); p != token.NoPos {
			if _, isDbg := in.(*ssa.DebugRef); isDbg {
				continue
			}
			if best == token.NoPos || p < best {
				best = p
			}
		}
	}
	return best
}

// ---------- top-level: verify one function ----------

func (c *Ctx) oblige(s *State, kind, label, goal, human string, pos token.Pos) {
	if goal == "true" {
		// discharged by the generator itself (the goal folded to true): nothing to ask a solver, but the NAME is remembered
		// for the baseline, so that the same obligation is recognised when a change makes it non-trivial and undecidable
		if c.trivialNames == nil {
			c.trivialNames = map[string]bool{}
		}
		c.trivialNames[(&Obligation{Func: c.name, Kind: kind, Label: label}).Name()] = true
		return
	}
	o := &Obligation{Func: c.name, Kind: kind, Label: label, Goal: human, PathID: s.pathID}
	if pos != token.NoPos {
		p := c.eng.fset.Position(pos)
		o.Pos = fmt.Sprintf("%s:%d", shortPath(p.Filename), p.Line)
	}
	var sb strings.Builder
	for _, cmd := range s.cmds {
		sb.WriteString(cmd)
		sb.WriteByte('\n')
	}
	skGoal, skDecls := skolemize(goal)
	if c.curBatch != "" {
		o.Batch = fmt.Sprintf("%d/%s", s.pathID, c.curBatch)
		o.NegDecls = skDecls
		o.NegTerm = "(not " + skGoal + ")"
		c.batchMembers = append(c.batchMembers, o)
	}
	for _, d := range skDecls {
		sb.WriteString(d)
		sb.WriteByte('\n')
		// integer skolem constants of a quantified goal: the element or key the counterexample is about
		if f := strings.Fields(strings.TrimSuffix(strings.TrimPrefix(d, "(declare-const "), ")")); len(f) >= 2 && strings.Join(f[1:], " ") == string(c.ar.idxSort()) {
			o.Skolems = append(o.Skolems, f[0])
		}
	}
	sb.WriteString("(assert (not " + skGoal + "))\n")
	o.Script = sb.String()
	o.Vars = c.modelVars
	c.obls = append(c.obls, o)
	// assume the goal afterwards
	n0 := len(s.cmds)
	c.assume(s, goal)
	if c.curBatch != "" && len(s.cmds) == n0+1 {
		c.batchGoalIdx = append(c.batchGoalIdx, n0)
	}
}

// closeBatch gives every member of the current batch the common prefix: all commands of the path at this point except
// the goals that were assumed after being raised inside the batch.
func (c *Ctx) closeBatch(s *State) {
	if len(c.batchMembers) >= 2 {
		skip := map[int]bool{}
		for _, i := range c.batchGoalIdx {
			skip[i] = true
		}
		var sb strings.Builder
		for i, cmd := range s.cmds {
			if skip[i] {
				continue
			}
			sb.WriteString(cmd)
			sb.WriteByte('\n')
		}
		p := sb.String()
		for _, o := range c.batchMembers {
			o.BatchPrefix = p
		}
	} else {
		for _, o := range c.batchMembers {
			o.Batch = ""
		}
	}
	c.curBatch, c.batchMembers, c.batchGoalIdx = "", nil, nil
}

func shortPath(p string) string {
	if i := strings.Index(p, "/repo/"); i >= 0 {
		return p[i+6:]
	}
	return p
}

func (c *Ctx) siteLabel(kind string) string {
	n := c.siteCount[kind]
	return fmt.Sprintf("%d", n)
}

// site ordinals are assigned statically per instruction so that they are path-independent.
func (c *Ctx) siteOf(in ssa.Instruction, kind string) string {
	key := fmt.Sprintf("%p/%s", in, kind)
	if v, ok := c.siteIDs[key]; ok {
		return v
	}
	// assign lazily but deterministically: ordinal among instructions of the same function by block/instr order
	fn := in.Parent()
	ord := 0
	found := false
	for _, b := range fn.Blocks {
		for _, x := range b.Instrs {
			if x == in {
				found = true
				break
			}
			if sameSiteKind(x, kind) {
				ord++
			}
		}
		if found {
			break
		}
	}
	v := fmt.Sprintf("%d", ord)
	if fn != c.fn {
		v = fn.Name() + "." + v
	}
	c.siteIDs[key] = v
	return v
}

func sameSiteKind(x ssa.Instruction, kind string) bool {
	switch kind {
	case "index":
		switch x.(type) {
		case *ssa.IndexAddr, *ssa.Index:
			return true
		}
	case "slice":
		_, ok := x.(*ssa.Slice)
		return ok
	case "div0":
		if b, ok := x.(*ssa.BinOp); ok {
			return b.Op == token.QUO || b.Op == token.REM
		}
	case "assert":
		_, ok := x.(*ssa.TypeAssert)
		return ok
	case "make":
		_, ok := x.(*ssa.MakeSlice)
		return ok
	case "panic":
		_, ok := x.(*ssa.Panic)
		return ok
	case "nil":
		switch x.(type) {
		case *ssa.FieldAddr, *ssa.UnOp, *ssa.Store, *ssa.MapUpdate, *ssa.Call:
			return true
		}
	case "call":
		_, ok := x.(*ssa.Call)
		return ok
	}
	return false
}

func (c *Ctx) undecide(msg string) {
	for _, u := range c.undecided {
		if u == msg {
			return
		}
	}
	c.undecided = append(c.undecided, msg)
}

// obligeFieldBounds: a function of the package that declares a field bound (type invariant) must establish it for every
// value of that type it returns.
func (c *Ctx) obligeFieldBounds(s *State, res Val, pos token.Pos) {
	if c.pc == nil || len(c.pc.FieldBounds) == 0 || res == nil {
		return
	}
	var walk func(v Val)
	walk = func(v Val) {
		switch x := v.(type) {
		case TupleV:
			for _, e := range x.E {
				walk(e)
			}
		case StructV:
			st := structOf(x.Ty)
			if st == nil || namedOf(x.Ty) == nil {
				return
			}
			owner := typeName(x.Ty)
			for _, fb := range c.pc.FieldBounds {
				if shortPkg(c.pc.Pkg)+"."+fb.Type != owner {
					continue
				}
				for i := 0; i < st.NumFields() && i < len(x.F); i++ {
					if st.Field(i).Name() != fb.Field {
						continue
					}
					if sc, ok := x.F[i].(Scalar); ok {
						if ii, isInt := isIntType(sc.Ty); isInt {
							c.oblige(s, "typeinv", fb.Type+"."+fb.Field, c.ar.cmp(token.LEQ, sc.T, c.ar.litI(fb.Max, ii), ii),
								fmt.Sprintf("returned %s has %s <= %d", fb.Type, fb.Field, fb.Max), pos)
						}
					}
				}
			}
		}
	}
	walk(res)
}

// verify runs the symbolic execution of c.fn against c.fc and collects obligations.
func (c *Ctx) verify() {
	defer func() {
		if r := recover(); r != nil {
			if u, ok := r.(unsupported); ok {
				c.undecide("unsupported: " + u.msg)
				return
			}
			panic(r)
		}
	}()
	fn := c.fn
	s := &State{heap: map[string]string{}, touched: map[string]bool{}}
	s.allocBase = "alloc0"
	fr := c.newFrame(fn)
	s.frames = []*Frame{fr}
	if want := c.fc.Opts["calledfrom"]; want != "" {
		c.checkCallers(s, want)
	}
	// parameters
	env := c.newSpecEnv(s, fr)
	for i, p := range fn.Params {
		v := c.freshVal(s, p.Name(), p.Type())
		fr.regs[p] = v
		fr.src[p.Name()] = v
		env.vars[p.Name()] = v
		if i == 0 && fn.Signature.Recv() != nil && c.fc.RecvName != "" {
			env.vars[c.fc.RecvName] = v
		}
		c.paramAssumptions(s, p.Name(), v, c.fc)
		c.addModelVars(p.Name(), v)
	}
	// captured variables of a function literal: each is a pointer to the variable's cell. Contracts name the VARIABLE
	// (its current value); several captures called "_" (unnamed results of the enclosing function) are _0, _1, ...
	blanks := 0
	var fvRefs []string
	for _, fv := range fn.FreeVars {
		v := c.freshVal(s, fv.Name(), fv.Type())
		fr.regs[fv] = v
		name := fv.Name()
		if name == "_" {
			name = blankFreeVarName(fn, fv, blanks)
			blanks++
		}
		c.paramAssumptions(s, name, v, c.fc)
		if sc, ok := v.(Scalar); ok && sc.S == SRef {
			for _, o := range fvRefs {
				c.assume(s, fmt.Sprintf("(not (= %s %s))", sc.T, o)) // distinct variables have distinct cells
			}
			fvRefs = append(fvRefs, sc.T)
			if _, isPtr := fv.Type().Underlying().(*types.Pointer); isPtr && !strings.Contains(name, "$") {
				sa := SrcAddr{P: v, Ty: fv.Type()}
				fr.src[name] = sa
				env.vars[name] = sa
			}
		}
		// range-over-func protocol: the loop body is only entered while its state variable says "ready"
		if fn.Synthetic == "range-over-func yield" && strings.HasPrefix(fv.Name(), "jump$") {
			c.assumptions["range-over-func: iterators call the loop body only in the ready state (jump == 0)"] = true
			cur := c.loadAt(s, nil, v, fv.Type().Underlying().(*types.Pointer).Elem()).(Scalar)
			c.assume(s, fmt.Sprintf("(= %s %s)", cur.T, c.ar.idx(0)))
			sa := SrcAddr{P: v, Ty: fv.Type()}
			fr.src["jump"] = sa
			env.vars["jump"] = sa
			// the state variable itself is protocol state of the lowering, not of the program: always writable
			if sc, ok := v.(Scalar); ok {
				c.extraMods = append(c.extraMods, modEntry{heap: fieldHeapName("cell", "int", ""), sort: fmt.Sprintf("(Array Ref %s)", c.ar.idxSort()), kind: modSingle, ref: sc.T})
			}
		}
	}
	c.entryEnvVars = env.vars
	env.old = map[string]string{}
	// requires
	for _, r := range c.fc.Requires {
		t := env.evalBool(r.Expr)
		c.assume(s, t)
	}
	// vacuity: precondition satisfiable
	c.reach(s, "reach", "pre", "precondition satisfiable")
	c.entryCmds = len(s.cmds)
	if sl := c.fc.Opts["startloop"]; sl != "" {
		ord, _ := strconv.Atoi(strings.TrimSpace(sl))
		var hdr *ssa.BasicBlock
		for b, o := range fr.fi.headers {
			if o == ord {
				hdr = b
			}
		}
		if hdr == nil {
			unsup("opt startloop %d: no such loop", ord)
		}
		c.assumptions[fmt.Sprintf("opt startloop: %s is examined from the head of loop #%d on, from an arbitrary state satisfying that loop's invariants (the part before the loop is examined by the companion contract with opt cutatloop)", c.name, ord)] = true
		// parameters that the function keeps in variable cells (because a function literal captures them) and never
		// reassigns still hold the parameter's value
		for _, in := range fn.Blocks[0].Instrs {
			st, ok := in.(*ssa.Store)
			if !ok {
				continue
			}
			al, isAl := st.Addr.(*ssa.Alloc)
			_, isParam := st.Val.(*ssa.Parameter)
			if !isAl || !isParam {
				continue
			}
			stores := 0
			for _, ref := range *al.Referrers() {
				if s2, ok := ref.(*ssa.Store); ok && s2.Addr == al {
					stores++
				}
			}
			if stores == 1 {
				c.step(s, fr, al)
				c.step(s, fr, st)
			}
		}
		c.lazyRegs = true
		c.startLoop = hdr
		// every variable declared before the loop exists (with arbitrary content) and can be named by the invariant
		for _, bb := range fn.Blocks {
			if fr.fi.inLoop[hdr][bb] {
				continue
			}
			for _, in := range bb.Instrs {
				if al, ok := in.(*ssa.Alloc); ok && al.Comment != "" {
					if _, done := fr.regs[al]; !done {
						func() {
							defer func() { recover() }()
							c.val(s, al)
						}()
					}
				}
			}
		}
		// enter the header as if coming from a predecessor outside the loop
		for _, p := range hdr.Preds {
			if !fr.fi.inLoop[hdr][p] {
				fr.prev = p
			}
		}
		fr.block = hdr
		fr.idx = 0
	}
	c.run(s)
}

// reach emits a reachability (vacuity) obligation: the current path condition must be satisfiable.
func (c *Ctx) reach(s *State, kind, label, human string) {
	o := &Obligation{Func: c.name, Kind: kind, Label: label, Goal: human, PathID: s.pathID}
	var sb strings.Builder
	for _, cmd := range s.cmds {
		sb.WriteString(cmd)
		sb.WriteByte('\n')
	}
	o.Script = sb.String()
	o.Reach = true
	c.obls = append(c.obls, o)
}

func (c *Ctx) paramAssumptions(s *State, name string, v Val, fc *FuncContract) {
	switch x := v.(type) {
	case Scalar:
		if x.S == SRef {
			c.assume(s, c.ptrFact(x))
			if _, isPtr := x.Ty.Underlying().(*types.Pointer); isPtr && !fc.Nilable[name] {
				c.assume(s, fmt.Sprintf("(not (= %s rnil))", x.T))
			}
			c.assume(s, fmt.Sprintf("(< (rootid %s) alloc0)", x.T))
		}
	case SliceV:
		c.assume(s, fmt.Sprintf("(< (rootid %s) alloc0)", x.Arr))
	case IfaceV:
		c.assume(s, fmt.Sprintf("(< (rootid %s) alloc0)", x.PRef))
	case StructV:
		for i, f := range x.F {
			c.paramAssumptions(s, fmt.Sprintf("%s.%d", name, i), f, fc)
		}
	}
}

func (c *Ctx) addModelVars(name string, v Val) {
	switch x := v.(type) {
	case Scalar:
		c.modelVars = append(c.modelVars, modelVar{name, x.T})
	case SliceV:
		c.modelVars = append(c.modelVars, modelVar{name + "#arr", x.Arr}, modelVar{name + "#off", x.Off}, modelVar{name + "#len", x.Len}, modelVar{name + "#cap", x.Cap})
	case IfaceV:
		c.modelVars = append(c.modelVars, modelVar{name + "#tag", x.Tag}, modelVar{name + "#pref", x.PRef}, modelVar{name + "#pint", x.PInt})
	case StructV:
		st := structOf(x.Ty)
		for i, f := range x.F {
			c.addModelVars(name+"."+st.Field(i).Name(), f)
		}
	}
}

func (c *Ctx) newFrame(fn *ssa.Function) *Frame {
	fi := c.eng.loopInfo(fn)
	return &Frame{fn: fn, regs: map[ssa.Value]Val{}, locals: map[*ssa.Alloc]*localCell{}, src: map[string]Val{},
		loops: map[*ssa.BasicBlock]*loopSnap{}, fi: fi, block: fn.Blocks[0]}
}

// run executes the top frame until the path ends, forking at branches.
func (c *Ctx) run(s *State) {
	for {
		if c.npaths > c.maxPaths {
			c.undecide(fmt.Sprintf("path limit %d exceeded", c.maxPaths))
			return
		}
		if os.Getenv("GOVC_DEBUG_PATHS") != "" && c.npaths != c.dbgLast {
			c.dbgLast = c.npaths
			top := s.top()
			fmt.Fprintf(os.Stderr, "PATH %d now in %s block %d (%s) frames=%d\n", c.npaths, top.fn.Name(), top.block.Index, top.block.Comment, len(s.frames))
		}
		fr := s.top()
		if fr.idx == 0 {
			// block entry: loop header handling and phis
			if !c.enterBlock(s, fr) {
				c.npaths++
				return
			}
			// diagnostic mode (GOVC_BLOCKREACH=1): one vacuity guard per basic block of the function under contract — a block
			// that no explored path reaches feasibly is either dead code or hidden by a contradictory assumption
			if blockReach && len(s.frames) == 1 && len(fr.block.Instrs) > 0 {
				if _, isPanic := fr.block.Instrs[len(fr.block.Instrs)-1].(*ssa.Panic); !isPanic {
					c.reach(s, "reach", fmt.Sprintf("block%d:%s", fr.block.Index, c.eng.prog.Fset.Position(firstPos(fr.block)).String()), "block reachable")
				}
			}
		}
		if fr.idx >= len(fr.block.Instrs) {
			unsup("fell off block")
		}
		in := fr.block.Instrs[fr.idx]
		fr.idx++
		switch x := in.(type) {
		case *ssa.If:
			cond := c.val(s, x.Cond).(Scalar).T
			if cond == "true" || cond == "false" {
				k := 0
				if cond == "false" {
					k = 1
				}
				c.jump(fr, fr.block.Succs[k])
				continue
			}
			// opt prune: drop a branch whose path condition is unsatisfiable (one short solver call per branch); only
			// a definite "unsat" prunes, so this never hides a feasible path
			if c.fc.Opts["prune"] != "" {
				okT := c.branchFeasible(s, cond)
				okF := c.branchFeasible(s, "(not "+cond+")")
				if !okT && okF {
					c.assume(s, "(not "+cond+")")
					c.jump(fr, fr.block.Succs[1])
					continue
				}
				if okT && !okF {
					c.assume(s, cond)
					c.jump(fr, fr.block.Succs[0])
					continue
				}
				if !okT && !okF {
					c.npaths++
					return // the path itself was already infeasible
				}
			}
			s2 := s.clone()
			c.nextPathID++
			s2.pathID = c.nextPathID
			c.assume(s, cond)
			c.jump(fr, fr.block.Succs[0])
			c.run(s)
			c.assume(s2, "(not "+cond+")")
			fr2 := s2.top()
			c.jump(fr2, fr2.block.Succs[1])
			s = s2
			continue
		case *ssa.Jump:
			c.jump(fr, fr.block.Succs[0])
			continue
		case *ssa.Return:
			var res Val
			switch len(x.Results) {
			case 0:
			case 1:
				res = c.val(s, x.Results[0])
			default:
				tv := TupleV{Ty: fr.fn.Signature.Results()}
				for _, r := range x.Results {
					tv.E = append(tv.E, c.val(s, r))
				}
				res = tv
			}
			if len(s.frames) == 1 {
				c.atReturn(s, fr, res)
				c.npaths++
				return
			}
			// return from inlined call
			s.frames = s.frames[:len(s.frames)-1]
			caller := s.top()
			if fr.retTo != nil && res != nil {
				caller.regs[fr.retTo] = res
			}
			continue
		case *ssa.Panic:
			c.atPanic(s, fr, x)
			c.npaths++
			return
		default:
			// opt cutbefore <callee>: the path ends right BEFORE the first direct call of <callee>; the postconditions (which
			// must not mention results) are checked in the state reached there: "everything up to this call establishes them"
			if cut := c.fc.Opts["cutbefore"]; cut != "" && len(s.frames) == 1 {
				if call, ok := in.(*ssa.Call); ok {
					name := ""
					if callee, ok := call.Common().Value.(*ssa.Function); ok {
						name = relFuncName(callee)
					} else if call.Common().IsInvoke() {
						name = "(" + typeName(call.Common().Value.Type()) + ")." + call.Common().Method.Name()
					}
					for _, want := range strings.Split(cut, "|") {
						if name != "" && name == strings.TrimSpace(want) {
							c.assumptions["opt cutbefore: function "+c.name+" is only examined up to (not including) its first call of "+cut] = true
							c.cutReturn(s, fr)
							c.npaths++
							return
						}
					}
				}
			}
			forked := c.step(s, fr, in)
			// opt cutafter <callee>: the path ends right after the first direct call of <callee>; the postconditions
			// (which must not mention results) are checked there. Used for obligations about an argument of that call
			// inside functions whose remaining body would multiply the paths.
			if cut := c.fc.Opts["cutafter"]; cut != "" && len(s.frames) == 1 && forked == nil {
				if call, ok := in.(*ssa.Call); ok {
					name := ""
					if callee, ok := call.Common().Value.(*ssa.Function); ok {
						name = relFuncName(callee)
					} else if call.Common().IsInvoke() {
						name = "(" + typeName(call.Common().Value.Type()) + ")." + call.Common().Method.Name()
					}
					for _, want := range strings.Split(cut, "|") {
						if name != "" && name == strings.TrimSpace(want) {
							c.cutReturn(s, fr)
							c.npaths++
							return
						}
					}
				}
			}
			if forked != nil {
				// step requested a fork: run each alternative
				for i, alt := range forked {
					if i == len(forked)-1 {
						s = alt
					} else {
						c.run(alt)
					}
				}
				continue
			}
			if s.dead {
				c.npaths++
				return
			}
		}
	}
}

func (c *Ctx) jump(fr *Frame, to *ssa.BasicBlock) {
	fr.prev = fr.block
	fr.block = to
	fr.idx = 0
}

// enterBlock handles loop headers and evaluates phis. Returns false if the path ends here (back edge).
func (c *Ctx) enterBlock(s *State, fr *Frame) bool {
	b := fr.block
	ord, isHeader := fr.fi.headers[b]
	// evaluate phis w.r.t. predecessor
	phiVals := map[*ssa.Phi]Val{}
	predIdx := -1
	for i, p := range b.Preds {
		if p == fr.prev {
			predIdx = i
		}
	}
	for _, in := range b.Instrs {
		phi, ok := in.(*ssa.Phi)
		if !ok {
			break
		}
		if predIdx < 0 {
			unsup("phi without predecessor")
		}
		phiVals[phi] = c.val(s, phi.Edges[predIdx])
	}
	nphi := len(phiVals)
	if !isHeader {
		for phi, v := range phiVals {
			fr.regs[phi] = v
			if phi.Comment != "" {
				fr.src[srcPhiName(phi.Comment)] = v
			}
		}
		fr.idx = nphi
		return true
	}
	lc := c.loopContract(fr.fn, ord)
	fromInside := fr.prev != nil && fr.fi.inLoop[b][fr.prev]
	if fromInside {
		snap := fr.loops[b]
		if snap == nil {
			unsup("back edge without loop snapshot")
		}
		// bind phis to back-edge values and check the invariant
		for phi, v := range phiVals {
			fr.regs[phi] = v
			if phi.Comment != "" {
				fr.src[srcPhiName(phi.Comment)] = v
			}
		}
		c.bindRangeIdx(s, fr, b, ord)
		env := c.loopEnv(s, fr, snap)
		if lc != nil {
			for i, be := range lc.BodyEnsures {
				env.loopCallBase = snap.callLogLen
				env.prevSrc, env.prevHeap = snap.src, snap.heap
				c.obligeClause(s, env, "body", loopLabel(ord, be, i), be)
			}
			for i, inv := range lc.Invariants {
				c.obligeClause(s, env, "inv-step", loopLabel(ord, inv, i), inv)
			}
			if lc.Decreases != nil {
				d := env.eval(lc.Decreases.Expr).(Scalar).T
				goal := fmt.Sprintf("(and (<= 0 %s) (< %s %s))", snap.dec, d, snap.dec)
				if c.ar.bv {
					goal = fmt.Sprintf("(and (bvsle %s %s) (bvslt %s %s))", c.ar.idx(0), snap.dec, d, snap.dec)
				}
				c.oblige(s, "dec", fmt.Sprintf("loop%d", ord), goal, "decreases "+lc.Decreases.Text, b.Instrs[0].Pos())
			}
		}
		// loop frame
		c.checkFrame(s, snap.heap, snap.mods, snap.allocBase, "loopframe", fmt.Sprintf("loop%d", ord), b.Instrs[0].Pos())
		return false
	}
	// entering the loop from outside
	for phi, v := range phiVals {
		fr.regs[phi] = v
		if phi.Comment != "" {
			fr.src[srcPhiName(phi.Comment)] = v
		}
	}
	c.bindRangeIdx(s, fr, b, ord)
	// loop frames are relative to function entry: anything allocated since function entry may be modified by the loop
	preSnap := &loopSnap{heap: s.snapshot(), allocBase: "alloc0"}
	env := c.loopEnv(s, fr, preSnap)
	if c.startLoop == b && fr.fn == c.fn && !c.startLoopEntered {
		// opt startloop: this is where execution starts; the invariant is ASSUMED below (it is established by the companion
		// "opt cutatloop" contract), nothing to check on entry
		c.startLoopEntered = true
	} else if lc != nil {
		for i, inv := range lc.Invariants {
			c.obligeClause(s, env, "inv-init", loopLabel(ord, inv, i), inv)
		}
		if cl := c.fc.Opts["cutatloop"]; cl != "" && fr.fn == c.fn && len(s.frames) == 1 {
			if want, _ := strconv.Atoi(strings.TrimSpace(cl)); want == ord {
				// opt cutatloop: the path ends here, having shown the invariant on arrival (and the frame so far)
				c.assumptions[fmt.Sprintf("opt cutatloop: %s is examined up to the head of loop #%d (the rest by the companion contract with opt startloop)", c.name, ord)] = true
				c.reach(s, "reach", "return", "loop head reachable")
				return false
			}
		}
	} else {
		c.noteOnce(fmt.Sprintf("loop #%d of %s has no invariant (treated as true)", ord, fr.fn.Name()))
	}
	// modifies set is evaluated in the pre-loop state (names refer to values on loop entry)
	mods := c.loopMods(s, fr, lc, preSnap)
	// havoc: phis, locals assigned in loop, heaps
	for phi := range phiVals {
		v := c.freshVal(s, phiName(phi), phi.Type())
		if lv, ok := phiVals[phi].(LocV); ok {
			_ = lv
			unsup("pointer-valued loop phi")
		}
		fr.regs[phi] = v
		if phi.Comment != "" {
			fr.src[srcPhiName(phi.Comment)] = v
		}
	}
	c.bindRangeIdx(s, fr, b, ord)
	// built-in invariant of go/ssa's range loops: the hidden index starts at -1 and only increments
	for phi := range phiVals {
		if phi.Comment == "rangeindex" {
			if sc, ok := fr.regs[phi].(Scalar); ok {
				c.assume(s, c.idxCmp(token.GEQ, sc.T, c.ar.idx(-1)))
				c.assume(s, c.idxCmp(token.LEQ, sc.T, c.ar.idx(1<<40))) // stays below the slice length, which is <= 2^40
			}
		}
	}
	// address-taken locals assigned inside the loop
	for al, cell := range fr.locals {
		if c.localAssignedInLoop(fr, b, al) {
			cell.val = c.freshVal(s, al.Comment, al.Type().(*types.Pointer).Elem())
		}
	}
	// map iterators advanced inside the loop: their set of already-yielded keys is loop-carried
	for v, rv := range fr.regs {
		it, ok := rv.(RangeIterV)
		if !ok {
			continue
		}
		rg, isRange := v.(*ssa.Range)
		if !isRange {
			continue
		}
		inLoop := false
		for _, ref := range *rg.Referrers() {
			if nx, ok := ref.(*ssa.Next); ok && fr.fi.inLoop[b][nx.Block()] {
				inLoop = true
			}
		}
		if inLoop {
			it.Visited = c.freshConst(s, "visited", c.visitedSort(it.MT))
			it.Count = c.freshConst(s, "visitedcount", SInt)
			c.assume(s, fmt.Sprintf("(>= %s 0)", it.Count))
			fr.regs[v] = it
			fr.src["visited"] = GhostSetV{Term: it.Visited}
			fr.src["visitedcount"] = Scalar{it.Count, SInt, types.Typ[types.Int]}
		}
	}
	// bump allocation base: objects allocated in earlier iterations are >= old base but < new base
	nb := c.freshConst(s, "allocL", SInt)
	c.assume(s, fmt.Sprintf("(>= %s %s)", nb, c.allocTerm(s)))
	s.allocBase = nb
	s.allocCnt = 0
	// variables of this function that live in heap cells (captured by a function literal under contract, or address
	// taken) but which nothing inside this loop can write keep their value across the havoc
	type keptCell struct {
		lv LocV
		el types.Type
		v  Val
	}
	var kept []keptCell
	for reg, rv := range fr.regs {
		al, ok := reg.(*ssa.Alloc)
		if !ok {
			continue
		}
		lv, ok := rv.(LocV)
		if !ok || lv.Kind != LocCell || len(lv.Proj) > 0 {
			continue
		}
		if c.cellMayChangeInLoop(fr, b, al) {
			continue
		}
		el := al.Type().(*types.Pointer).Elem()
		kept = append(kept, keptCell{lv, el, c.loadAt(s, nil, lv, el)})
	}
	c.havocLoop(s, mods, preSnap.allocBase)
	for _, kc := range kept {
		c.storeAt(s, kc.lv, kc.el, kc.v)
	}
	// calls made by earlier iterations: their number is unknown after the havoc
	{
		var inl []*ssa.BasicBlock
		for _, bb := range fr.fn.Blocks {
			if fr.fi.inLoop[b][bb] {
				inl = append(inl, bb)
			}
		}
		c.widenCallCounts(s, c.callNamesIn(inl))
	}
	snap := &loopSnap{heap: s.snapshot(), allocBase: preSnap.allocBase, mods: mods, callLogLen: len(s.calllog)}
	env = c.loopEnv(s, fr, snap)
	if lc != nil {
		for _, inv := range lc.Invariants {
			c.assume(s, env.evalBool(inv.Expr))
		}
		if lc.Decreases != nil {
			snap.dec = c.bind(s, "dec", c.ar.idxSort(), env.eval(lc.Decreases.Expr).(Scalar).T)
		}
	}
	// source-level variables at the start of the iteration (dereferenced now: local cells change later)
	snap.src = map[string]Val{}
	{
		denv := c.newSpecEnv(s, fr)
		for name, v := range fr.src {
			func() {
				defer func() { recover() }()
				snap.src[name] = denv.derefSrc(v)
			}()
		}
	}
	fr.loops[b] = snap
	fr.idx = nphi
	return true
}

func phiName(p *ssa.Phi) string {
	if p.Comment != "" {
		return srcPhiName(p.Comment)
	}
	return p.Name()
}

// srcPhiName maps go/ssa's synthetic phi comments to identifiers usable in invariants.
func srcPhiName(c string) string {
	switch c {
	case "rangeint.iter":
		return "iter"
	}
	return c
}

func loopLabel(ord int, cl *Clause, i int) string {
	if cl.Label != "" {
		return fmt.Sprintf("loop%d.%s", ord, cl.Label)
	}
	return fmt.Sprintf("loop%d.%d", ord, i)
}

func (c *Ctx) noteOnce(msg string) {
	c.notes[msg] = true
}

func (c *Ctx) bindRangeIdx(s *State, fr *Frame, b *ssa.BasicBlock, ord int) {
	for _, in := range b.Instrs {
		phi, ok := in.(*ssa.Phi)
		if !ok {
			break
		}
		if phi.Comment == "rangeindex" {
			v := fr.regs[phi].(Scalar)
			ii, _ := isIntType(v.Ty)
			t, _ := c.ar.binop(token.ADD, v.T, c.ar.litI(1, ii), ii, ii)
			nv := Scalar{t, v.S, v.Ty}
			fr.src["rangeidx"] = nv
			fr.src[fmt.Sprintf("rangeidx%d", ord)] = nv
		}
	}
}

func (c *Ctx) localAssignedInLoop(fr *Frame, h *ssa.BasicBlock, al *ssa.Alloc) bool {
	set := fr.fi.inLoop[h]
	for _, ref := range *al.Referrers() {
		if st, ok := ref.(*ssa.Store); ok && st.Addr == al && set[st.Block()] {
			return true
		}
		// address passed to a call inside the loop
		if call, ok := ref.(*ssa.Call); ok && set[call.Block()] {
			return true
		}
	}
	return false
}

// cellMayChangeInLoop: can the loop with header h write the variable cell al? Yes if it stores to it, passes its address
// to a call, creates or uses (inside the loop) a function literal that captures it, or if its address escapes anywhere.
func (c *Ctx) cellMayChangeInLoop(fr *Frame, h *ssa.BasicBlock, al *ssa.Alloc) bool {
	set := fr.fi.inLoop[h]
	for _, ref := range *al.Referrers() {
		switch r := ref.(type) {
		case *ssa.Store:
			if r.Val == al {
				return true // address escapes
			}
			if set[r.Block()] {
				return true
			}
		case *ssa.UnOp, *ssa.DebugRef:
		case *ssa.MakeClosure:
			if set[r.Block()] {
				return true
			}
			for _, u := range *r.Referrers() {
				if set[u.Block()] {
					return true
				}
				// the closure value flows somewhere other than a direct call: it may be invoked from anywhere
				switch uu := u.(type) {
				case *ssa.Call:
					isArgOrCallee := uu.Common().Value == r
					for _, a := range uu.Common().Args {
						if a == r {
							isArgOrCallee = true
						}
					}
					if !isArgOrCallee {
						return true
					}
				case *ssa.DebugRef:
				default:
					return true
				}
			}
		default:
			if ref.Block() != nil && set[ref.Block()] {
				return true
			}
			if _, ok := ref.(*ssa.Call); ok {
				continue // address passed to a call outside the loop: the callee cannot run during the loop (no goroutines in the subset)
			}
			return true
		}
	}
	return false
}

func (c *Ctx) loopContract(fn *ssa.Function, ord int) *LoopContract {
	fc := c.fc
	if fn != c.fn {
		fc = c.eng.contractFor(fn)
	}
	if fc == nil {
		return nil
	}
	return fc.Loops[ord]
}

func (c *Ctx) loopEnv(s *State, fr *Frame, snap *loopSnap) *SpecEnv {
	env := c.newSpecEnv(s, fr)
	for k, v := range c.entryEnvVars {
		if _, ok := env.vars[k]; !ok {
			env.vars[k] = v
		}
	}
	env.old = map[string]string{} // old() in loop invariants refers to function entry
	env.oldIsEntry = true
	env.useSrc = true
	return env
}

// loopMods: modifies set for a loop: explicit clause or the function's modifies.
func (c *Ctx) loopMods(s *State, fr *Frame, lc *LoopContract, snap *loopSnap) (out []modEntry) {
	defer func() {
		if r := recover(); r != nil {
			if se, ok := r.(specError); ok && strings.HasPrefix(se.msg, "unknown identifier ") {
				// a modifies target that the source no longer declares: the loop may modify anything (sound), its frame is undecided
				c.undecide("loop frame: modifies clause " + se.msg)
				out = []modEntry{{all: true}}
				return
			}
			panic(r)
		}
	}()
	var cls []*Clause
	if lc != nil && lc.ModGiven {
		cls = lc.Modifies
	} else if fr.fn == c.fn {
		if !c.fc.ModGiven {
			return []modEntry{{all: true}}
		}
		cls = c.fc.Modifies
		// evaluated at function entry
		env := c.newSpecEnv(s, fr)
		env.vars = c.entryEnvVars
		env.heap = map[string]string{}
		return c.evalMods(env, cls)
	} else {
		return []modEntry{{all: true}}
	}
	env := c.newSpecEnv(s, fr)
	for k, v := range c.entryEnvVars {
		if _, ok := env.vars[k]; !ok {
			env.vars[k] = v
		}
	}
	env.heap = snap.heap
	env.useSrc = true
	env.old = map[string]string{}
	return c.evalMods(env, cls)
}

func (c *Ctx) allocTerm(s *State) string {
	if s.allocCnt == 0 {
		return s.allocBase
	}
	return fmt.Sprintf("(+ %s %d)", s.allocBase, s.allocCnt)
}

func (c *Ctx) allocRef(s *State) string {
	t := fmt.Sprintf("(mkobj %s)", c.allocTerm(s))
	s.allocCnt++
	return t
}

// ---------- return / panic ----------

func (c *Ctx) atReturn(s *State, fr *Frame, res Val) {
	env := c.newSpecEnv(s, fr)
	env.vars = map[string]Val{}
	for k, v := range c.entryEnvVars {
		env.vars[k] = v
	}
	env.old = map[string]string{}
	env.oldIsEntry = true
	env.localsInPost = true
	// "cutpoint": false at a real return, true where opt cutbefore/cutafter ends a path — lets a clause say "the function
	// does not return before the cut" (implies(!cutpoint, …))
	env.vars["cutpoint"] = Scalar{"false", SBool, types.Typ[types.Bool]}
	c.bindResults(env, fr.fn, res)
	// ghost updates
	for _, u := range c.fc.Updates {
		c.applyUpdate(s, env, u)
	}
	pos := token.NoPos
	if fr.idx > 0 {
		pos = fr.block.Instrs[fr.idx-1].Pos()
	}
	if pos == token.NoPos {
		pos = fr.fn.Pos()
	}
	c.batchSeq++
	c.curBatch, c.batchMembers, c.batchGoalIdx = fmt.Sprintf("ret%d", c.batchSeq), nil, nil
	defer c.closeBatch(s)
	c.obligeFieldBounds(s, res, pos)
	for i, e := range c.fc.Ensures {
		label := e.Label
		if label == "" {
			label = fmt.Sprintf("%d", i)
		}
		c.obligeClauseAt(s, env, "post", label, e, pos)
	}
	if c.fc.ModGiven {
		menv := c.newSpecEnv(s, fr)
		menv.vars = c.entryEnvVars
		menv.heap = map[string]string{}
		var mods []modEntry
		ok := true
		func() {
			defer func() {
				if r := recover(); r != nil {
					if se, isSE := r.(specError); isSE && strings.HasPrefix(se.msg, "unknown identifier ") {
						// a modifies target that no longer exists: the frame is undecided (never an alarm), posts stay checked
						c.undecide("frame: modifies clause " + se.msg)
						ok = false
						return
					}
					panic(r)
				}
			}()
			mods = c.evalMods(menv, c.fc.Modifies)
		}()
		if ok {
			c.checkFrame(s, map[string]string{}, append(mods, c.extraMods...), "alloc0", "frame", "", pos)
		}
	}
	c.reach(s, "reach", "return", "some return reachable")
}

// branchFeasible: false only if the solver proves cmds ∧ cond unsatisfiable within a second.
func (c *Ctx) branchFeasible(s *State, cond string) bool {
	var sb strings.Builder
	sb.WriteString(preamble(c.ar.bv))
	sb.WriteString(strings.Join(c.decls, "\n"))
	sb.WriteByte('\n')
	for _, cmd := range s.cmds {
		sb.WriteString(cmd)
		sb.WriteByte('\n')
	}
	sb.WriteString("(assert " + cond + ")\n(check-sat)\n")
	f, err := os.CreateTemp("", "govc-prune-*.smt2")
	if err != nil {
		return true
	}
	defer os.Remove(f.Name())
	f.WriteString(sb.String())
	f.Close()
	a, _, _ := runSolver(solvers[0], f.Name(), 1)
	return a != "unsat"
}

// cutReturn: end of a path cut by "opt cutafter": postconditions only (no frame check, results unbound).
func (c *Ctx) cutReturn(s *State, fr *Frame) {
	env := c.newSpecEnv(s, fr)
	env.vars = map[string]Val{}
	for k, v := range c.entryEnvVars {
		env.vars[k] = v
	}
	env.old = map[string]string{}
	env.oldIsEntry = true
	env.localsInPost = true
	env.vars["cutpoint"] = Scalar{"true", SBool, types.Typ[types.Bool]}
	pos := fr.fn.Pos()
	if fr.idx > 0 {
		pos = fr.block.Instrs[fr.idx-1].Pos()
	}
	if c.fc.Opts["cutafter"] != "" {
		c.assumptions["opt cutafter: function "+c.name+" is only examined up to its first call of "+c.fc.Opts["cutafter"]] = true
	}
	for i, e := range c.fc.Ensures {
		label := e.Label
		if label == "" {
			label = fmt.Sprintf("%d", i)
		}
		c.obligeClauseAt(s, env, "post", label, e, pos)
	}
	c.reach(s, "reach", "return", "some return reachable")
}

func (c *Ctx) bindResults(env *SpecEnv, fn *ssa.Function, res Val) {
	results := fn.Signature.Results()
	if results.Len() == 0 {
		return
	}
	if results.Len() == 1 {
		env.vars["result"] = res
		env.vars["result0"] = res
		if n := results.At(0).Name(); n != "" && n != "_" {
			env.vars[n] = res
		}
		return
	}
	tv := res.(TupleV)
	for i := 0; i < results.Len(); i++ {
		env.vars[fmt.Sprintf("result%d", i)] = tv.E[i]
		if n := results.At(i).Name(); n != "" && n != "_" {
			env.vars[n] = tv.E[i]
		}
	}
}

func (c *Ctx) obligeClause(s *State, env *SpecEnv, kind, label string, cl *Clause) {
	c.obligeClauseAt(s, env, kind, label, cl, token.NoPos)
}

func (c *Ctx) obligeClauseAt(s *State, env *SpecEnv, kind, label string, cl *Clause, pos token.Pos) {
	// split top-level conjunctions to keep queries small? keep whole clause: one obligation per label.
	if env.localsInPost {
		// a postcondition may name a local variable; on a return that is reached before the variable is defined the
		// clause says nothing (the name must be a real local of this function, otherwise it is a contract error)
		skip := false
		func() {
			defer func() {
				if r := recover(); r != nil {
					if se, ok := r.(specError); ok && strings.HasPrefix(se.msg, "unknown identifier ") {
						name := strings.Trim(strings.TrimPrefix(se.msg, "unknown identifier "), "\"")
						if c.isLocalName(name) {
							skip = true
							return
						}
						// the clause names something the current source no longer has (a renamed or removed variable):
						// this clause alone is undecided, the others are still checked
						c.undecide(fmt.Sprintf("clause %s:%s names %q, which the function no longer declares", kind, label, name))
						return
					}
					panic(r)
				}
			}()
			goal := env.evalBool(cl.Expr)
			c.oblige(s, kind, label, goal, cl.Text, pos)
		}()
		_ = skip
		return
	}
	func() {
		defer func() {
			if r := recover(); r != nil {
				if se, ok := r.(specError); ok && strings.HasPrefix(se.msg, "unknown identifier ") {
					name := strings.Trim(strings.TrimPrefix(se.msg, "unknown identifier "), "\"")
					c.undecide(fmt.Sprintf("clause %s:%s names %q, which the function no longer declares", kind, label, name))
					return
				}
				panic(r)
			}
		}()
		goal := env.evalBool(cl.Expr)
		c.oblige(s, kind, label, goal, cl.Text, pos)
	}()
}

// isLocalName: does the function under verification declare a local variable of this name?
func (c *Ctx) isLocalName(name string) bool {
	for _, b := range c.fn.Blocks {
		for _, in := range b.Instrs {
			switch x := in.(type) {
			case *ssa.DebugRef:
				if id, ok := x.Expr.(*ast.Ident); ok && id.Name == name {
					return true
				}
			case *ssa.Alloc:
				if x.Comment == name {
					return true
				}
			}
		}
	}
	return false
}

func (c *Ctx) atPanic(s *State, fr *Frame, x *ssa.Panic) {
	fc := c.fc
	if len(fc.PanicsWhen) == 0 || fr.fn != c.fn {
		c.oblige(s, "safe:panic", c.siteOf(x, "panic"), "false", "panic unreachable", x.Pos())
		return
	}
	env := c.newSpecEnv(s, fr)
	env.vars = c.entryEnvVars
	env.heap = map[string]string{}
	var ds []string
	for _, p := range fc.PanicsWhen {
		ds = append(ds, env.evalBool(p.Expr))
	}
	goal := ds[0]
	if len(ds) > 1 {
		goal = "(or " + strings.Join(ds, " ") + ")"
	}
	c.oblige(s, "safe:panic", c.siteOf(x, "panic"), goal, "panic only when allowed", x.Pos())
}

// ---------- instruction step ----------

func (c *Ctx) val(s *State, v ssa.Value) Val {
	fr := s.top()
	switch x := v.(type) {
	case *ssa.Const:
		return c.constVal(s, x)
	case *ssa.Function:
		return ClosureV{Fn: x, Term: c.fnID(x), Ty: x.Type()}
	case *ssa.Global:
		return c.globalAddr(x)
	case *ssa.Builtin:
		unsup("builtin %s as value", x.Name())
	}
	if r, ok := fr.regs[v]; ok {
		return r
	}
	if c.lazyRegs && len(s.frames) == 1 {
		// opt startloop: a value computed before the loop is arbitrary here (only the invariant speaks about it)
		if al, ok := v.(*ssa.Alloc); ok {
			c.step(s, fr, al) // allocates the variable's cell (zero value) and binds its source name ...
			el := al.Type().(*types.Pointer).Elem()
			if r, ok := fr.regs[v]; ok {
				if !isAggregate(el) {
					c.storeAt(s, r, el, c.freshVal(s, "pre."+al.Comment, el)) // ... then makes its content arbitrary
				}
				return r
			}
		} else if in, ok := v.(ssa.Instruction); ok && v.Type() != nil {
			// a value that depends only on its operands (address arithmetic, arithmetic, len/cap, conversions) is recomputed
			// from them, so that e.g. a length taken before the loop is still the length of the slice taken before the loop
			pure := false
			switch x := in.(type) {
			case *ssa.BinOp, *ssa.Convert, *ssa.ChangeType, *ssa.FieldAddr, *ssa.IndexAddr, *ssa.Slice, *ssa.Field:
				pure = true
			case *ssa.UnOp:
				pure = x.Op != token.MUL && x.Op != token.ARROW
			case *ssa.Call:
				if b, ok := x.Common().Value.(*ssa.Builtin); ok && (b.Name() == "len" || b.Name() == "cap") {
					pure = true
				}
			}
			if pure {
				ok := false
				func() {
					defer func() {
						if r := recover(); r != nil {
							if _, isU := r.(unsupported); !isU {
								panic(r)
							}
						}
					}()
					c.step(s, fr, in)
					_, ok = fr.regs[v]
				}()
				if ok {
					return fr.regs[v]
				}
			}
			nv := c.freshVal(s, "pre."+v.Name(), v.Type())
			if sc, ok := nv.(Scalar); ok && sc.S == SRef {
				c.assume(s, c.ptrFact(sc))
			}
			c.typeRangeAssume(s, nv)
			fr.regs[v] = nv
			return nv
		}
	}
	unsup("value %s (%T) not defined on this path", v.Name(), v)
	return nil
}

func (c *Ctx) fnID(f *ssa.Function) string {
	return fmt.Sprintf("%d", c.eng.fnID(f))
}

func (c *Ctx) globalAddr(g *ssa.Global) Val {
	name := "glob!" + sanitize(g.Pkg.Pkg.Name()+"."+g.Name())
	c.declGlobal("glob:"+name, fmt.Sprintf("(declare-const %s Int)\n(assert (and (> %s 0) (< %s alloc0)))", name, name, name))
	ref := fmt.Sprintf("(mkobj %s)", name)
	el := g.Type().(*types.Pointer).Elem()
	if isAggregate(el) {
		return Scalar{ref, SRef, g.Type()}
	}
	return LocV{Kind: LocCell, Base: ref, Ty: g.Type()}
}

func (c *Ctx) constVal(s *State, k *ssa.Const) Val {
	t := k.Type()
	if k.Value == nil {
		// nil / zero value
		if _, ok := t.Underlying().(*types.Basic); ok && t.Underlying().(*types.Basic).Kind() == types.UntypedNil {
			return Scalar{"rnil", SRef, t}
		}
		return c.zeroVal(s, t)
	}
	if ii, ok := isIntType(t); ok {
		return Scalar{c.ar.constInt(k.Value, ii), c.ar.intSort(ii), t}
	}
	if isBoolType(t) {
		if constant.BoolVal(k.Value) {
			return Scalar{"true", SBool, t}
		}
		return Scalar{"false", SBool, t}
	}
	if isFloatType(t) {
		return Scalar{realLit(k.Value), SReal, t}
	}
	if isStringType(t) {
		return Scalar{c.strLit(constant.StringVal(k.Value)), SStr, t}
	}
	unsup("constant of type %s", t)
	return nil
}

func (c *Ctx) setReg(s *State, fr *Frame, v ssa.Value, val Val) {
	// name scalar terms to keep the script small
	if sc, ok := val.(Scalar); ok {
		sc.T = c.bind(s, fr.fn.Name()+"."+v.Name(), sc.S, sc.T)
		val = sc
	}
	fr.regs[v] = val
}

func (c *Ctx) derefCheck(s *State, in ssa.Instruction, p Val) {
	ps, ok := p.(Scalar)
	if !ok || ps.S != SRef {
		return
	}
	goal := fmt.Sprintf("(not (= %s rnil))", ps.T)
	if ps.T == "rnil" {
		goal = "false"
	}
	if c.checkNil {
		c.oblige(s, "safe:nil", c.siteOf(in, "nil"), goal, "nil dereference", in.Pos())
	} else {
		c.assume(s, goal)
	}
}

// step executes one non-control instruction. Returns alternative states if it forks.
func (c *Ctx) step(s *State, fr *Frame, in ssa.Instruction) []*State {
	switch x := in.(type) {
	case *ssa.DebugRef:
		if id, ok := x.Expr.(*ast.Ident); ok {
			if v, ok := c.tryVal(s, x.X); ok {
				if x.IsAddr {
					fr.src[id.Name] = SrcAddr{P: v, Ty: x.X.Type()}
				} else if _, isAddr := fr.src[id.Name].(SrcAddr); !isAddr {
					// (an address-taken variable keeps denoting its cell: a value DebugRef is only a snapshot)
					fr.src[id.Name] = v
				}
			}
		}
	case *ssa.Alloc:
		el := x.Type().(*types.Pointer).Elem()
		if at, isArr := el.Underlying().(*types.Array); isArr {
			if _, ok := c.ar.sortOfScalar(at.Elem()); !ok || x.Heap {
				ref := c.allocRef(s)
				c.zeroFillFixedArray(s, ref, at)
				fr.regs[x] = Scalar{ref, SRef, x.Type()}
				return nil
			}
		}
		if !isAggregate(el) {
			if !x.Heap || c.onlyLocalUses(x) {
				cell := &localCell{id: len(fr.locals), val: c.zeroVal(s, el)}
				fr.locals[x] = cell
				lv := LocV{Kind: LocLocal, Local: cell, Ty: x.Type()}
				fr.regs[x] = lv
				if x.Comment != "" {
					fr.src[allocSrcName(x)] = SrcAddr{P: lv, Ty: x.Type()}
				}
				return nil
			}
		}
		ref := c.allocRef(s)
		if at, isArr := el.Underlying().(*types.Array); isArr {
			c.zeroFillFixedArray(s, ref, at)
			fr.regs[x] = Scalar{ref, SRef, x.Type()}
		} else if isAggregate(el) {
			pv := Scalar{ref, SRef, x.Type()}
			c.assume(s, c.dynTypeFact(ref, el))
			c.storeAt(s, pv, el, c.zeroVal(s, el))
			fr.regs[x] = pv
			if structOf(el) != nil && c.allocIsPrivate(x) {
				s.privates = append(s.privates[:len(s.privates):len(s.privates)], privateObj{ref, el})
			}
		} else {
			lv := LocV{Kind: LocCell, Base: ref, Ty: x.Type()}
			c.storeAt(s, lv, el, c.zeroVal(s, el))
			fr.regs[x] = lv
		}
		if x.Comment != "" {
			fr.src[allocSrcName(x)] = SrcAddr{P: fr.regs[x], Ty: x.Type()}
		}
	case *ssa.FieldAddr:
		p := c.val(s, x.X)
		c.derefCheck(s, x, p)
		st := x.X.Type().Underlying().(*types.Pointer).Elem()
		switch pv := p.(type) {
		case Scalar:
			fr.regs[x] = c.fieldAddr(pv.T, st, x.Field)
		case LocV:
			if pv.Kind == LocLocal {
				// field of a local struct variable: model as sub-location
				fr.regs[x] = c.localFieldAddr(s, pv, st, x.Field, x.Type())
			} else {
				unsup("FieldAddr on %v", pv.Kind)
			}
		default:
			unsup("FieldAddr base %T", p)
		}
	case *ssa.Field:
		sv, ok := c.val(s, x.X).(StructV)
		if !ok {
			unsup("Field of non-struct value")
		}
		fr.regs[x] = sv.F[x.Field]
	case *ssa.UnOp:
		return c.unop(s, fr, x)
	case *ssa.Store:
		p := c.val(s, x.Addr)
		c.derefCheck(s, x, p)
		v := c.val(s, x.Val)
		c.storeAt(s, p, x.Val.Type(), v)
	case *ssa.BinOp:
		c.binop(s, fr, x)
	case *ssa.Convert:
		c.convert(s, fr, x)
	case *ssa.ChangeType:
		v := c.val(s, x.X)
		fr.regs[x] = retype(v, x.Type())
	case *ssa.MultiConvert:
		unsup("MultiConvert")
	case *ssa.ChangeInterface:
		v := c.val(s, x.X).(IfaceV)
		v.Ty = x.Type()
		fr.regs[x] = v
	case *ssa.MakeInterface:
		fr.regs[x] = c.makeInterface(s, c.val(s, x.X), x.X.Type(), x.Type())
	case *ssa.TypeAssert:
		c.typeAssert(s, fr, x)
	case *ssa.Extract:
		tv, ok := c.val(s, x.Tuple).(TupleV)
		if !ok {
			unsup("Extract from non-tuple")
		}
		if tv.E[x.Index] == nil {
			unsup("Extract of unmodelled tuple component")
		}
		fr.regs[x] = tv.E[x.Index]
	case *ssa.IndexAddr:
		c.indexAddr(s, fr, x)
	case *ssa.Index:
		c.index(s, fr, x)
	case *ssa.Slice:
		c.sliceOp(s, fr, x)
	case *ssa.MakeSlice:
		c.makeSlice(s, fr, x)
	case *ssa.MakeMap:
		ref := c.allocRef(s)
		mt := x.Type().Underlying().(*types.Map)
		c.mapInitEmpty(s, ref, mt)
		fr.regs[x] = Scalar{ref, SRef, x.Type()}
	case *ssa.MapUpdate:
		c.mapUpdate(s, fr, x)
	case *ssa.Lookup:
		c.lookup(s, fr, x)
	case *ssa.MakeClosure:
		fn := x.Fn.(*ssa.Function)
		var bs []Val
		for _, b := range x.Bindings {
			bs = append(bs, c.val(s, b))
		}
		fr.regs[x] = ClosureV{Fn: fn, Bindings: bs, Term: c.fnID(fn), Ty: x.Type()}
	case *ssa.Call:
		return c.call(s, fr, x)
	case *ssa.Defer:
		var args []Val
		for _, a := range x.Call.Args {
			args = append(args, c.val(s, a))
		}
		if x.Call.IsInvoke() {
			args = append([]Val{c.val(s, x.Call.Value)}, args...)
		} else if _, isFn := x.Call.Value.(*ssa.Function); !isFn {
			if _, isB := x.Call.Value.(*ssa.Builtin); !isB {
				args = append([]Val{c.val(s, x.Call.Value)}, args...)
			}
		}
		fr.defers = append(fr.defers, x)
		fr.deferArgs = append(fr.deferArgs, args)
	case *ssa.RunDefers:
		for i := len(fr.defers) - 1; i >= 0; i-- {
			d := fr.defers[i]
			c.runDeferred(s, fr, d, fr.deferArgs[i])
		}
		fr.defers = nil
		fr.deferArgs = nil
	case *ssa.Range:
		c.rangeInit(s, fr, x)
	case *ssa.Next:
		return c.rangeNext(s, fr, x)
	case *ssa.Select:
		if x.Blocking {
			unsup("blocking select")
		}
		// non-blocking select with default: nondeterministic choice; sends have no modelled effect
		idx := c.freshConst(s, "select", SInt)
		c.assume(s, fmt.Sprintf("(and (>= %s (- 1)) (< %s %d))", idx, idx, len(x.States)))
		tv := TupleV{Ty: x.Type()}
		tv.E = append(tv.E, Scalar{c.intFromMath(idx), c.ar.idxSort(), types.Typ[types.Int]})
		tv.E = append(tv.E, Scalar{c.freshConst(s, "recvok", SBool), SBool, types.Typ[types.Bool]})
		tt := x.Type().(*types.Tuple)
		for i := 2; i < tt.Len(); i++ {
			tv.E = append(tv.E, c.freshVal(s, "recv", tt.At(i).Type()))
		}
		fr.regs[x] = tv
	case *ssa.Send:
		unsup("channel send")
	case *ssa.Go:
		unsup("go statement")
	case *ssa.MakeChan:
		fr.regs[x] = Scalar{c.allocRef(s), SRef, x.Type()}
	case *ssa.SliceToArrayPointer:
		unsup("SliceToArrayPointer")
	default:
		unsup("instruction %T", in)
	}
	return nil
}

func (c *Ctx) intFromMath(t string) string {
	if c.ar.bv {
		return fmt.Sprintf("((_ int2bv 64) %s)", t)
	}
	return t
}

func (c *Ctx) tryVal(s *State, v ssa.Value) (val Val, ok bool) {
	defer func() {
		if r := recover(); r != nil {
			if _, isU := r.(unsupported); isU {
				ok = false
				return
			}
			panic(r)
		}
	}()
	return c.val(s, v), true
}

// allocIsPrivate: the address of the local variable is only used for loads and stores through it (also through field and
// array-element addresses derived from it) and as an argument of static calls of module functions whose matching
// parameter is itself only used that way (one level). Such storage cannot be reached by any callee.
func (c *Ctx) allocIsPrivate(a *ssa.Alloc) bool {
	if v, ok := c.eng.privateAllocs.Load(a); ok {
		return v.(bool)
	}
	r := c.addrStaysLocal(a, 1)
	c.eng.privateAllocs.Store(a, r)
	return r
}

func (c *Ctx) addrStaysLocal(v ssa.Value, depth int) bool {
	refs := v.Referrers()
	if refs == nil {
		return false
	}
	for _, ref := range *refs {
		switch r := ref.(type) {
		case *ssa.DebugRef:
		case *ssa.UnOp:
			if r.Op != token.MUL {
				return false
			}
		case *ssa.Store:
			if r.Val == v || r.Addr != v {
				return false
			}
		case *ssa.FieldAddr:
			if !c.addrStaysLocal(r, depth) {
				return false
			}
		case *ssa.IndexAddr:
			if r.X != v {
				return false
			}
			if _, isPtrToArray := v.Type().Underlying().(*types.Pointer); !isPtrToArray {
				return false
			}
			if !c.addrStaysLocal(r, depth) {
				return false
			}
		case *ssa.Call:
			com := r.Common()
			fn, ok := com.Value.(*ssa.Function)
			if !ok || com.IsInvoke() || depth == 0 || fn.Blocks == nil || fn.Pkg == nil || !strings.HasPrefix(fn.Pkg.Pkg.Path(), c.eng.modPath) {
				return false
			}
			for i, arg := range com.Args {
				if arg != v {
					continue
				}
				if i >= len(fn.Params) || !c.addrStaysLocal(fn.Params[i], depth-1) {
					return false
				}
			}
		default:
			return false
		}
	}
	return true
}

func (c *Ctx) onlyLocalUses(a *ssa.Alloc) bool {
	for _, ref := range *a.Referrers() {
		switch r := ref.(type) {
		case *ssa.Store:
			if r.Val == a {
				return false
			}
		case *ssa.UnOp, *ssa.DebugRef:
		case *ssa.MakeClosure:
			// captured by a closure: fine if closure is inlined; handled as local cell. A function literal that is under
			// contract is NOT inlined (its contract's modifies names the captured variable): the variable must be a heap cell.
			if f, ok := r.Fn.(*ssa.Function); ok {
				if fc := c.eng.contractFor(f); fc != nil && !fc.Inline {
					return false
				}
			}
		default:
			return false
		}
	}
	return true
}

// localFieldAddr: address of a field of a local struct variable.
func (c *Ctx) localFieldAddr(s *State, base LocV, st types.Type, field int, pty types.Type) Val {
	np := append(append([]string(nil), base.Proj...), fmt.Sprintf("f:%d", field))
	return LocV{Kind: LocLocal, Local: base.Local, Proj: np, Ty: pty}
}

func retype(v Val, t types.Type) Val {
	switch x := v.(type) {
	case Scalar:
		x.Ty = t
		return x
	case SliceV:
		x.Ty = t
		return x
	case IfaceV:
		x.Ty = t
		return x
	case StructV:
		x.Ty = t
		return x
	case ArrayV:
		x.Ty = t
		return x
	case LocV:
		x.Ty = t
		return x
	case ClosureV:
		x.Ty = t
		return x
	}
	return v
}

func (c *Ctx) unop(s *State, fr *Frame, x *ssa.UnOp) []*State {
	switch x.Op {
	case token.MUL: // load
		p := c.val(s, x.X)
		c.derefCheck(s, x, p)
		var v Val
		v = c.loadAt(s, nil, p, x.Type())
		// name and range-constrain loaded scalars
		if sc, ok := v.(Scalar); ok {
			if _, isLocal := p.(LocV); !isLocal || p.(LocV).Kind != LocLocal {
				sc.T = c.bind(s, fr.fn.Name()+"."+x.Name(), sc.S, sc.T)
				if ii, ok := isIntType(sc.Ty); ok {
					c.assume(s, c.ar.rangeAssume(sc.T, ii))
					if lv, isLoc := p.(LocV); isLoc && lv.Kind == LocField && lv.Field != nil {
						if max, ok := c.fieldBound(lv.Field.Owner, lv.Field.Name); ok {
							c.assume(s, c.ar.cmp(token.LEQ, sc.T, c.ar.litI(max, ii), ii))
						}
					}
				}
				c.assume(s, c.ptrFact(sc))
				v = sc
			}
		} else if sl, ok := v.(SliceV); ok {
			if lv, isLoc := p.(LocV); !isLoc || lv.Kind != LocLocal {
				sl.Arr = c.bind(s, x.Name()+"#arr", SRef, sl.Arr)
				sl.Off = c.bind(s, x.Name()+"#off", c.ar.idxSort(), sl.Off)
				sl.Len = c.bind(s, x.Name()+"#len", c.ar.idxSort(), sl.Len)
				sl.Cap = c.bind(s, x.Name()+"#cap", c.ar.idxSort(), sl.Cap)
				c.assume(s, c.sliceWF(sl))
				v = sl
			}
		} else if st, ok := v.(StructV); ok {
			c.typeRangeAssume(s, st)
		} else if iv, ok := v.(IfaceV); ok {
			if g, isG := x.X.(*ssa.Global); isG && g.Pkg != nil && !strings.HasPrefix(g.Pkg.Pkg.Path(), c.eng.modPath) || isG && isErrVarName(g.Name()) {
				// package-level error variables (io.EOF, ErrXxx) are initialised once and never nil
				c.errVarFacts(s, g, iv)
			}
		}
		fr.regs[x] = v
	case token.NOT:
		v := c.val(s, x.X).(Scalar)
		fr.regs[x] = Scalar{simplifyNot(v.T), SBool, x.Type()}
	case token.SUB:
		v := c.val(s, x.X).(Scalar)
		if isFloatType(x.Type()) {
			fr.regs[x] = Scalar{fmt.Sprintf("(- %s)", v.T), SReal, x.Type()}
		} else {
			ii, _ := isIntType(x.Type())
			c.setReg(s, fr, x, Scalar{c.ar.neg(v.T, ii), v.S, x.Type()})
		}
	case token.XOR:
		v := c.val(s, x.X).(Scalar)
		ii, _ := isIntType(x.Type())
		c.setReg(s, fr, x, Scalar{c.ar.not(v.T, ii), v.S, x.Type()})
	case token.ARROW:
		unsup("channel receive")
	default:
		unsup("unop %v", x.Op)
	}
	return nil
}

func simplifyNot(t string) string {
	if t == "true" {
		return "false"
	}
	if t == "false" {
		return "true"
	}
	if strings.HasPrefix(t, "(not ") && strings.HasSuffix(t, ")") {
		inner := t[5 : len(t)-1]
		if balanced(inner) {
			return inner
		}
	}
	return "(not " + t + ")"
}

func balanced(s string) bool {
	d := 0
	for i, ch := range s {
		switch ch {
		case '(':
			d++
		case ')':
			d--
			if d < 0 {
				return false
			}
			if d == 0 && i != len(s)-1 {
				return false
			}
		case ' ':
			if d == 0 {
				return false
			}
		}
	}
	return d == 0
}

func (c *Ctx) binop(s *State, fr *Frame, x *ssa.BinOp) {
	a := c.val(s, x.X)
	b := c.val(s, x.Y)
	xt := x.X.Type()
	switch x.Op {
	case token.EQL, token.NEQ:
		eq := c.valEq(s, a, b, xt)
		if x.Op == token.NEQ {
			eq = simplifyNot(eq)
		}
		fr.regs[x] = Scalar{eq, SBool, x.Type()}
		return
	}
	as, ok1 := a.(Scalar)
	bs, ok2 := b.(Scalar)
	if !ok1 || !ok2 {
		unsup("binop on non-scalars")
	}
	if isFloatType(xt) {
		var t string
		switch x.Op {
		case token.ADD:
			t = fmt.Sprintf("(+ %s %s)", as.T, bs.T)
		case token.SUB:
			t = fmt.Sprintf("(- %s %s)", as.T, bs.T)
		case token.MUL:
			if isRealLit(as.T) || isRealLit(bs.T) {
				t = fmt.Sprintf("(* %s %s)", as.T, bs.T)
			} else {
				t = fmt.Sprintf("(fmul %s %s)", as.T, bs.T)
			}
		case token.QUO:
			if isRealLit(bs.T) {
				t = fmt.Sprintf("(/ %s %s)", as.T, bs.T)
			} else {
				t = fmt.Sprintf("(fdiv %s %s)", as.T, bs.T)
			}
		case token.LSS:
			fr.regs[x] = Scalar{fmt.Sprintf("(< %s %s)", as.T, bs.T), SBool, x.Type()}
			return
		case token.LEQ:
			fr.regs[x] = Scalar{fmt.Sprintf("(<= %s %s)", as.T, bs.T), SBool, x.Type()}
			return
		case token.GTR:
			fr.regs[x] = Scalar{fmt.Sprintf("(> %s %s)", as.T, bs.T), SBool, x.Type()}
			return
		case token.GEQ:
			fr.regs[x] = Scalar{fmt.Sprintf("(>= %s %s)", as.T, bs.T), SBool, x.Type()}
			return
		default:
			unsup("float op %v", x.Op)
		}
		c.setReg(s, fr, x, Scalar{t, SReal, x.Type()})
		return
	}
	if isBoolType(xt) {
		unsup("bool binop %v", x.Op)
	}
	if isStringType(xt) {
		switch x.Op {
		case token.ADD:
			n := c.freshConst(s, "strcat", SStr)
			c.assume(s, fmt.Sprintf("(= (strlen %s) %s)", n, c.idxAdd(c.strLen(as.T), c.strLen(bs.T))))
			fr.regs[x] = Scalar{n, SStr, x.Type()}
			return
		}
		unsup("string op %v", x.Op)
	}
	ii, ok := isIntType(xt)
	if !ok {
		unsup("binop on type %s", xt)
	}
	switch x.Op {
	case token.LSS, token.LEQ, token.GTR, token.GEQ:
		fr.regs[x] = Scalar{c.ar.cmp(x.Op, as.T, bs.T, ii), SBool, x.Type()}
		return
	}
	iy, _ := isIntType(x.Y.Type())
	t, side := c.ar.binop(x.Op, as.T, bs.T, ii, iy)
	if side != "" {
		c.oblige(s, "safe:div0", c.siteOf(x, "div0"), side, "division by zero", x.Pos())
	}
	c.setReg(s, fr, x, Scalar{t, as.S, x.Type()})
}

func isRealLit(t string) bool {
	if t == "" {
		return false
	}
	if t[0] >= '0' && t[0] <= '9' {
		return true
	}
	return strings.HasPrefix(t, "(/ ") || strings.HasPrefix(t, "(- (/ ") || strings.HasPrefix(t, "(- 0") || strings.HasPrefix(t, "(- 1")
}

// valEq: structural equality of two values of Go type t.
func (c *Ctx) valEq(s *State, a, b Val, t types.Type) string {
	switch x := a.(type) {
	case Scalar:
		switch y := b.(type) {
		case Scalar:
			if x.T == y.T {
				return "true"
			}
			// func values are integers (0 = nil func)
			if x.S == SInt && y.T == "rnil" {
				return fmt.Sprintf("(= %s 0)", x.T)
			}
			if y.S == SInt && x.T == "rnil" {
				return fmt.Sprintf("(= %s 0)", y.T)
			}
			return fmt.Sprintf("(= %s %s)", x.T, y.T)
		case LocV:
			return fmt.Sprintf("(= %s %s)", x.T, c.locToRef(y))
		case ClosureV:
			return fmt.Sprintf("(= %s %s)", x.T, y.Term)
		case IfaceV:
			// comparing nil with interface
			if x.T == "rnil" {
				return fmt.Sprintf("(= %s 0)", y.Tag)
			}
		}
	case IfaceV:
		switch y := b.(type) {
		case IfaceV:
			if y.Tag == "0" {
				return fmt.Sprintf("(= %s 0)", x.Tag)
			}
			if x.Tag == "0" {
				return fmt.Sprintf("(= %s 0)", y.Tag)
			}
			return fmt.Sprintf("(and (= %s %s) (= %s %s) (= %s %s))", x.Tag, y.Tag, x.PRef, y.PRef, x.PInt, y.PInt)
		case Scalar:
			if y.T == "rnil" {
				return fmt.Sprintf("(= %s 0)", x.Tag)
			}
		}
	case SliceV:
		// only comparison with nil is legal
		return fmt.Sprintf("(= %s rnil)", x.Arr)
	case StructV:
		y, ok := b.(StructV)
		if !ok {
			break
		}
		st := structOf(x.Ty)
		var cs []string
		for i := range x.F {
			cs = append(cs, c.valEq(s, x.F[i], y.F[i], st.Field(i).Type()))
		}
		if len(cs) == 0 {
			return "true"
		}
		return "(and " + strings.Join(cs, " ") + ")"
	case ArrayV:
		y, ok := b.(ArrayV)
		if ok {
			// compare element-wise over the array length
			at := x.Ty.Underlying().(*types.Array)
			if at.Len() <= 32 {
				var cs []string
				for i := int64(0); i < at.Len(); i++ {
					cs = append(cs, fmt.Sprintf("(= (select %s %s) (select %s %s))", x.Term, c.ar.idx(i), y.Term, c.ar.idx(i)))
				}
				if len(cs) == 0 {
					return "true"
				}
				return "(and " + strings.Join(cs, " ") + ")"
			}
			return fmt.Sprintf("(= %s %s)", x.Term, y.Term)
		}
	case LocV:
		switch y := b.(type) {
		case Scalar:
			return fmt.Sprintf("(= %s %s)", c.locToRef(x), y.T)
		case LocV:
			return fmt.Sprintf("(= %s %s)", c.locToRef(x), c.locToRef(y))
		}
	case ClosureV:
		switch y := b.(type) {
		case Scalar:
			return fmt.Sprintf("(= %s %s)", x.Term, y.T)
		case ClosureV:
			return fmt.Sprintf("(= %s %s)", x.Term, y.Term)
		}
	}
	if sv, ok := b.(SliceV); ok {
		return fmt.Sprintf("(= %s rnil)", sv.Arr)
	}
	unsup("equality of %T and %T", a, b)
	return ""
}

func (c *Ctx) convert(s *State, fr *Frame, x *ssa.Convert) {
	v := c.val(s, x.X)
	from, to := x.X.Type(), x.Type()
	fi, fok := isIntType(from)
	ti, tok := isIntType(to)
	switch {
	case fok && tok:
		sc := v.(Scalar)
		c.setReg(s, fr, x, Scalar{c.ar.conv(sc.T, fi, ti), c.ar.intSort(ti), to})
	case fok && isFloatType(to):
		sc := v.(Scalar)
		fr.regs[x] = Scalar{c.ar.intToReal(sc.T, fi), SReal, to}
	case isFloatType(from) && tok:
		sc := v.(Scalar)
		c.setReg(s, fr, x, Scalar{c.ar.realToInt(sc.T, ti), c.ar.intSort(ti), to})
	case isFloatType(from) && isFloatType(to):
		fr.regs[x] = retype(v, to)
	case isStringType(from) && isByteSlice(to):
		// []byte(str): fresh array with len = strlen
		sc := v.(Scalar)
		arr := c.allocRef(s)
		ln := c.bind(s, "len", c.ar.idxSort(), c.strLen(sc.T))
		fr.regs[x] = SliceV{arr, c.ar.idx(0), ln, ln, to}
	case isByteSlice(from) && isStringType(to):
		sl := v.(SliceV)
		n := c.freshConst(s, "str", SStr)
		c.assume(s, fmt.Sprintf("(= (strlen %s) %s)", n, sl.Len))
		fr.regs[x] = Scalar{n, SStr, to}
	case fok && isStringType(to):
		fr.regs[x] = Scalar{c.freshConst(s, "str", SStr), SStr, to}
	default:
		if _, ok := from.Underlying().(*types.Pointer); ok {
			fr.regs[x] = retype(v, to)
			return
		}
		if b, ok := from.Underlying().(*types.Basic); ok && b.Kind() == types.UnsafePointer {
			fr.regs[x] = retype(v, to)
			return
		}
		unsup("convert %s -> %s", from, to)
	}
}

func isByteSlice(t types.Type) bool {
	if sl, ok := t.Underlying().(*types.Slice); ok {
		if b, ok := sl.Elem().Underlying().(*types.Basic); ok {
			return b.Kind() == types.Uint8 || b.Kind() == types.Int32
		}
	}
	return false
}

// ---------- interfaces ----------

func (c *Ctx) makeInterface(s *State, v Val, from types.Type, to types.Type) Val {
	tag := fmt.Sprintf("%d", c.typeID(from))
	switch x := v.(type) {
	case Scalar:
		switch x.S {
		case SRef:
			return IfaceV{tag, x.T, "0", to}
		case SBool:
			return IfaceV{tag, "rnil", fmt.Sprintf("(ite %s 1 0)", x.T), to}
		case SStr:
			return IfaceV{tag, "rnil", fmt.Sprintf("(strid %s)", x.T), to}
		case SReal:
			return IfaceV{tag, "rnil", fmt.Sprintf("(realid %s)", x.T), to}
		case SInt:
			return IfaceV{tag, "rnil", x.T, to}
		default:
			// bit-vector payload
			if ii, ok := isIntType(from); ok {
				if ii.signed {
					return IfaceV{tag, "rnil", fmt.Sprintf("(bv2nat (bvadd %s %s))", x.T, c.ar.lit(pow2(ii.bits-1), ii)), to}
				}
				return IfaceV{tag, "rnil", fmt.Sprintf("(bv2nat %s)", x.T), to}
			}
		}
	case StructV, ArrayV:
		ref := c.allocRef(s)
		pv := Scalar{ref, SRef, types.NewPointer(from)}
		c.storeAt(s, pv, from, v)
		return IfaceV{tag, ref, "0", to}
	case SliceV:
		// boxed slice: store in a fresh cell
		ref := c.allocRef(s)
		c.storeAt(s, LocV{Kind: LocCell, Base: ref, Ty: types.NewPointer(from)}, from, v)
		return IfaceV{tag, ref, "0", to}
	case IfaceV:
		x.Ty = to
		return x
	case LocV:
		return IfaceV{tag, c.locToRef(x), "0", to}
	case ClosureV:
		return IfaceV{tag, "rnil", x.Term, to}
	}
	unsup("MakeInterface of %T", v)
	return nil
}

// unbox extracts the payload of dynamic type t from an interface value.
func (c *Ctx) unbox(s *State, heap map[string]string, iv IfaceV, t types.Type) Val {
	if isAggregate(t) {
		return c.loadAt(s, heap, Scalar{iv.PRef, SRef, types.NewPointer(t)}, t)
	}
	sort, ok := c.ar.sortOfScalar(t)
	if !ok {
		if _, isSl := t.Underlying().(*types.Slice); isSl {
			return c.loadAt(s, heap, LocV{Kind: LocCell, Base: iv.PRef, Ty: types.NewPointer(t)}, t)
		}
		unsup("unbox to %s", t)
	}
	switch sort {
	case SRef:
		sc := Scalar{iv.PRef, SRef, t}
		// the typing fact only holds when the interface really holds a T
		if pf := c.ptrFact(sc); pf != "true" && pf != "" {
			c.assume(s, fmt.Sprintf("(=> (= %s %d) %s)", iv.Tag, c.typeID(t), pf))
		}
		return sc
	case SBool:
		return Scalar{fmt.Sprintf("(= %s 1)", iv.PInt), SBool, t}
	case SInt:
		return Scalar{iv.PInt, SInt, t}
	case SStr:
		return Scalar{fmt.Sprintf("(strofid %s)", iv.PInt), SStr, t}
	}
	if ii, ok := isIntType(t); ok && c.ar.bv {
		return Scalar{fmt.Sprintf("((_ int2bv %d) %s)", ii.bits, iv.PInt), sort, t}
	}
	unsup("unbox to %s", t)
	return nil
}

func (c *Ctx) typeAssert(s *State, fr *Frame, x *ssa.TypeAssert) {
	iv, ok := c.val(s, x.X).(IfaceV)
	if !ok {
		unsup("TypeAssert on %T", c.val(s, x.X))
	}
	var okT string
	var res Val
	if types.IsInterface(x.AssertedType) {
		okT = c.implementsTerm(iv.Tag, x.AssertedType)
		if ai, ok := x.AssertedType.Underlying().(*types.Interface); ok && types.IsInterface(x.X.Type()) && types.Implements(x.X.Type(), ai) {
			// every dynamic type of an operand of static type I implements I: v.(I) fails only for nil
			// (go/ssa emits this form as the nil check of an interface method value)
			okT = fmt.Sprintf("(not (= %s 0))", iv.Tag)
		}
		r := iv
		r.Ty = x.AssertedType
		res = r
	} else {
		okT = fmt.Sprintf("(= %s %d)", iv.Tag, c.typeID(x.AssertedType))
		res = c.unbox(s, nil, iv, x.AssertedType)
	}
	if x.CommaOk {
		okN := c.bind(s, "ok", SBool, okT)
		// on failure the value is the zero value
		z := c.zeroVal(s, x.AssertedType)
		res = c.iteVal(s, okN, res, z)
		fr.regs[x] = TupleV{E: []Val{res, Scalar{okN, SBool, types.Typ[types.Bool]}}, Ty: x.Type()}
		return
	}
	c.oblige(s, "safe:assert", c.siteOf(x, "assert"), okT, "type assertion succeeds", x.Pos())
	fr.regs[x] = res
}

func (c *Ctx) implementsTerm(tag string, iface types.Type) string {
	name := "impl!" + sanitize(typeName(iface))
	c.declGlobal("impl:"+name, fmt.Sprintf("(declare-fun %s (Int) Bool)\n(assert (not (%s 0)))", name, name))
	// known concrete tag?
	if v, ok := isNumeral(tag); ok {
		if t := c.eng.typeByID(int(v.Int64())); t != nil {
			if types.Implements(t, iface.Underlying().(*types.Interface)) {
				return "true"
			}
			return "false"
		}
	}
	// facts for every concrete type registered so far
	it := iface.Underlying().(*types.Interface)
	for id, t := range c.eng.typeListSnapshot() {
		if t == nil || types.IsInterface(t) {
			continue
		}
		val := "false"
		if types.Implements(t, it) {
			val = "true"
		}
		c.declGlobal(fmt.Sprintf("implfact:%s:%d", name, id), fmt.Sprintf("(assert (= (%s %d) %s))", name, id, val))
	}
	return fmt.Sprintf("(%s %s)", name, tag)
}

// iteVal builds ite(cond, a, b) componentwise.
func (c *Ctx) iteVal(s *State, cond string, a, b Val) Val {
	if cond == "true" {
		return a
	}
	if cond == "false" {
		return b
	}
	ite := func(x, y string) string {
		if x == y {
			return x
		}
		return fmt.Sprintf("(ite %s %s %s)", cond, x, y)
	}
	switch x := a.(type) {
	case Scalar:
		y, ok := b.(Scalar)
		if !ok {
			if lv, isL := b.(LocV); isL {
				return Scalar{ite(x.T, c.locToRef(lv)), x.S, x.Ty}
			}
			unsup("ite of %T and %T", a, b)
		}
		return Scalar{ite(x.T, y.T), x.S, x.Ty}
	case SliceV:
		y := b.(SliceV)
		return SliceV{ite(x.Arr, y.Arr), ite(x.Off, y.Off), ite(x.Len, y.Len), ite(x.Cap, y.Cap), x.Ty}
	case IfaceV:
		y := b.(IfaceV)
		return IfaceV{ite(x.Tag, y.Tag), ite(x.PRef, y.PRef), ite(x.PInt, y.PInt), x.Ty}
	case StructV:
		y := b.(StructV)
		r := StructV{Ty: x.Ty}
		for i := range x.F {
			r.F = append(r.F, c.iteVal(s, cond, x.F[i], y.F[i]))
		}
		return r
	case ArrayV:
		y := b.(ArrayV)
		return ArrayV{ite(x.Term, y.Term), x.Ty}
	case FixedArrV:
		y := b.(FixedArrV)
		r := FixedArrV{Ty: x.Ty}
		for k := range x.E {
			r.E = append(r.E, c.iteVal(s, cond, x.E[k], y.E[k]))
		}
		return r
	case LocV:
		switch y := b.(type) {
		case Scalar:
			return Scalar{ite(c.locToRef(x), y.T), SRef, x.Ty}
		case LocV:
			return Scalar{ite(c.locToRef(x), c.locToRef(y)), SRef, x.Ty}
		}
	case ClosureV:
		switch y := b.(type) {
		case Scalar:
			return Scalar{ite(x.Term, y.T), SInt, x.Ty}
		case ClosureV:
			return Scalar{ite(x.Term, y.Term), SInt, x.Ty}
		}
	}
	unsup("ite of %T and %T", a, b)
	return nil
}

// ---------- slices, arrays, indexing ----------

func (c *Ctx) idxCmp(op token.Token, a, b string) string {
	return c.ar.cmp(op, a, b, intInfo{64, true})
}

func (c *Ctx) idxAdd(a, b string) string {
	if c.ar.bv {
		return fmt.Sprintf("(bvadd %s %s)", a, b)
	}
	if a == "0" {
		return b
	}
	if b == "0" {
		return a
	}
	return fmt.Sprintf("(+ %s %s)", a, b)
}

func (c *Ctx) idxSub(a, b string) string {
	if c.ar.bv {
		return fmt.Sprintf("(bvsub %s %s)", a, b)
	}
	if b == "0" {
		return a
	}
	return fmt.Sprintf("(- %s %s)", a, b)
}

func (c *Ctx) inBounds(i, n string) string {
	return fmt.Sprintf("(and %s %s)", c.idxCmp(token.LEQ, c.ar.idx(0), i), c.idxCmp(token.LSS, i, n))
}

// toIdx converts an integer scalar of arbitrary int type to the index sort (int).
func (c *Ctx) toIdx(v Scalar) string {
	ii, ok := isIntType(v.Ty)
	if !ok {
		unsup("index of non-int type %s", v.Ty)
	}
	if c.ar.bv {
		return c.ar.convBV(v.T, ii, intInfo{64, true})
	}
	return v.T
}

func (c *Ctx) indexAddr(s *State, fr *Frame, x *ssa.IndexAddr) {
	base := c.val(s, x.X)
	iv := c.val(s, x.Index).(Scalar)
	i := c.toIdx(iv)
	switch bt := x.X.Type().Underlying().(type) {
	case *types.Slice:
		sl := base.(SliceV)
		c.oblige(s, "safe:index", c.siteOf(x, "index"), c.inBounds(i, sl.Len), "index in range", x.Pos())
		fr.regs[x] = c.elemAddr(s, sl.Arr, c.elemIdx(sl.Off, i), bt.Elem())
	case *types.Pointer:
		at := bt.Elem().Underlying().(*types.Array)
		c.derefCheck(s, x, base)
		c.oblige(s, "safe:index", c.siteOf(x, "index"), c.inBounds(i, c.ar.idx(at.Len())), "index in range", x.Pos())
		switch b := base.(type) {
		case Scalar:
			fr.regs[x] = c.elemAddr(s, b.T, i, at.Elem())
		case LocV:
			if b.Kind == LocLocal {
				np := append(append([]string(nil), b.Proj...), "i:"+i)
				fr.regs[x] = LocV{Kind: LocLocal, Local: b.Local, Proj: np, Ty: x.Type()}
			} else {
				unsup("IndexAddr on loc kind %v", b.Kind)
			}
		}
	default:
		unsup("IndexAddr on %s", x.X.Type())
	}
}

func (c *Ctx) elemAddr(s *State, arr, idx string, elem types.Type) Val {
	if isAggregate(elem) {
		return Scalar{fmt.Sprintf("(mkelem %s %s)", arr, idx), SRef, types.NewPointer(elem)}
	}
	return LocV{Kind: LocElem, Base: arr, Idx: idx, Ty: types.NewPointer(elem)}
}

func (c *Ctx) index(s *State, fr *Frame, x *ssa.Index) {
	base := c.val(s, x.X)
	iv := c.val(s, x.Index).(Scalar)
	i := c.toIdx(iv)
	switch bt := x.X.Type().Underlying().(type) {
	case *types.Array:
		c.oblige(s, "safe:index", c.siteOf(x, "index"), c.inBounds(i, c.ar.idx(bt.Len())), "index in range", x.Pos())
		if fa, ok := base.(FixedArrV); ok {
			r := fa.E[len(fa.E)-1]
			for k := len(fa.E) - 2; k >= 0; k-- {
				cond := c.bind(s, "arrsel", SBool, fmt.Sprintf("(= %s %s)", i, c.ar.idx(int64(k))))
				r = c.iteVal(s, cond, fa.E[k], r)
			}
			fr.regs[x] = r
			return
		}
		av := base.(ArrayV)
		sort, _ := c.ar.sortOfScalar(bt.Elem())
		fr.regs[x] = Scalar{fmt.Sprintf("(select %s %s)", av.Term, i), sort, x.Type()}
	case *types.Basic: // string index
		sv := base.(Scalar)
		c.oblige(s, "safe:index", c.siteOf(x, "index"), c.inBounds(i, c.strLen(sv.T)), "string index in range", x.Pos())
		fr.regs[x] = c.freshVal(s, "strbyte", x.Type())
	default:
		unsup("Index on %s", x.X.Type())
	}
}

func (c *Ctx) sliceOp(s *State, fr *Frame, x *ssa.Slice) {
	base := c.val(s, x.X)
	get := func(v ssa.Value) (string, bool) {
		if v == nil {
			return "", false
		}
		return c.toIdx(c.val(s, v).(Scalar)), true
	}
	lo, hasLo := get(x.Low)
	hi, hasHi := get(x.High)
	mx, hasMax := get(x.Max)
	if !hasLo {
		lo = c.ar.idx(0)
	}
	var arr, off, ln, cp string
	isStr := false
	switch bt := x.X.Type().Underlying().(type) {
	case *types.Slice:
		sl := base.(SliceV)
		arr, off, ln, cp = sl.Arr, sl.Off, sl.Len, sl.Cap
	case *types.Pointer:
		at := bt.Elem().Underlying().(*types.Array)
		c.derefCheck(s, x, base)
		bs, ok := base.(Scalar)
		if !ok {
			unsup("slice of local array")
		}
		arr, off, ln, cp = bs.T, c.ar.idx(0), c.ar.idx(at.Len()), c.ar.idx(at.Len())
	case *types.Basic:
		isStr = true
		sv := base.(Scalar)
		ln = c.strLen(sv.T)
		cp = ln
	default:
		unsup("Slice on %s", x.X.Type())
	}
	if !hasHi {
		hi = ln
	}
	bound := cp
	if isStr {
		bound = ln
	}
	if !hasMax {
		mx = bound
	}
	var goal string
	if hasMax {
		goal = fmt.Sprintf("(and %s %s %s %s)", c.idxCmp(token.LEQ, c.ar.idx(0), lo), c.idxCmp(token.LEQ, lo, hi), c.idxCmp(token.LEQ, hi, mx), c.idxCmp(token.LEQ, mx, cp))
	} else {
		goal = fmt.Sprintf("(and %s %s %s)", c.idxCmp(token.LEQ, c.ar.idx(0), lo), c.idxCmp(token.LEQ, lo, hi), c.idxCmp(token.LEQ, hi, bound))
	}
	c.oblige(s, "safe:slice", c.siteOf(x, "slice"), goal, "slice bounds in range", x.Pos())
	if isStr {
		n := c.freshConst(s, "substr", SStr)
		c.assume(s, fmt.Sprintf("(= (strlen %s) %s)", n, c.idxSub(hi, lo)))
		fr.regs[x] = Scalar{n, SStr, x.Type()}
		return
	}
	nl := c.bind(s, x.Name()+"#len", c.ar.idxSort(), c.idxSub(hi, lo))
	nc := c.bind(s, x.Name()+"#cap", c.ar.idxSort(), c.idxSub(mx, lo))
	no := c.bind(s, x.Name()+"#off", c.ar.idxSort(), c.idxAdd(off, lo))
	if lo != c.ar.idx(0) && off != c.ar.idx(0) && no != off {
		// re-slicing shifts relative indices: element k of the new slice is element k+lo of the old one. Stating this
		// on the index terms lets quantified facts about the old slice (triggered on sidx off _) apply to the new one.
		c.assume(s, fmt.Sprintf("(forall ((k %s)) (! (= (sidx %s k) (sidx %s %s)) :pattern ((sidx %s k))))", c.ar.idxSort(), no, off, c.idxAdd("k", lo), no))
	}
	fr.regs[x] = SliceV{arr, no, nl, nc, x.Type()}
}

func (c *Ctx) makeSlice(s *State, fr *Frame, x *ssa.MakeSlice) {
	ln := c.toIdx(c.val(s, x.Len).(Scalar))
	cp := c.toIdx(c.val(s, x.Cap).(Scalar))
	goal := fmt.Sprintf("(and %s %s)", c.idxCmp(token.LEQ, c.ar.idx(0), ln), c.idxCmp(token.LEQ, ln, cp))
	c.oblige(s, "safe:make", c.siteOf(x, "make"), goal, "make size non-negative", x.Pos())
	arr := c.allocRef(s)
	el := x.Type().Underlying().(*types.Slice).Elem()
	c.zeroFillArray(s, arr, el)
	fr.regs[x] = SliceV{arr, c.ar.idx(0), ln, cp, x.Type()}
}

// zeroFillArray sets all elements of a fresh backing array to the zero value.
func (c *Ctx) zeroFillArray(s *State, arr string, el types.Type) {
	if isAggregate(el) {
		// struct elements: fields at (mkelem arr i) are zero: quantified assumption per field on use; skipped (havoc semantics)
		st := structOf(el)
		if st == nil {
			return
		}
		c.zeroStructElems(s, arr, el)
		return
	}
	for _, cp := range c.ar.comps(el) {
		name := elemHeapName(el, cp.Path)
		hs := c.elemHeapSort(cp.S)
		h := c.heapTerm(s, name, hs)
		z := c.zeroComp(el, cp)
		if z == "rnil" {
			z = "(mkobj 0)" // cvc5 wants a value, not a defined constant, in a constant array
		}
		c.setHeap(s, name, hs, fmt.Sprintf("(store %s %s ((as const (Array %s %s)) %s))", h, arr, c.ar.idxSort(), cp.S, z))
	}
}

func (c *Ctx) zeroComp(t types.Type, cp comp) string {
	switch cp.Path {
	case "#arr", "#pref":
		return "rnil"
	case "#off", "#len", "#cap":
		return c.ar.idx(0)
	case "#tag", "#pint":
		return "0"
	}
	return c.zeroScalar(t).T
}

// zeroStructElems: for a fresh array of struct elements, all scalar fields of all elements are zero.
func (c *Ctx) zeroStructElems(s *State, arr string, el types.Type) {
	st := structOf(el)
	for i := 0; i < st.NumFields(); i++ {
		ft := st.Field(i).Type()
		if isAggregate(ft) {
			continue // nested aggregates: left unconstrained (sound for proofs that do not rely on zero-init)
		}
		for _, cp := range c.ar.comps(ft) {
			name := fieldHeapName(typeName(el), st.Field(i).Name(), cp.Path)
			hs := fmt.Sprintf("(Array Ref %s)", cp.S)
			h := c.heapTerm(s, name, hs)
			n := c.havocHeapNamed(s, name, hs)
			z := c.zeroComp(ft, cp)
			c.assume(s, fmt.Sprintf("(forall ((r Ref)) (! (= (select %s r) (ite (and ((_ is mkelem) r) (= (earr r) %s)) %s (select %s r))) :pattern ((select %s r))))", n, arr, z, h, n))
		}
	}
}

func (c *Ctx) havocHeapNamed(s *State, name, sort string) string {
	c.heapSorts[name] = sort
	n := q(c.fresh(name))
	c.declConst(s, n, sort)
	s.heap[name] = n
	s.touched[name] = true
	c.noteHeapVersion(s, name)
	return n
}

// dynTypeFact: the struct located at ref has type t.
func (c *Ctx) dynTypeFact(ref string, t types.Type) string {
	if structOf(t) == nil {
		return "true"
	}
	return fmt.Sprintf("(= (dyntype %s) %d)", ref, c.typeID(t))
}

// ptrFact: a pointer-to-struct value is nil or points to a struct of its static element type.
func (c *Ctx) ptrFact(sc Scalar) string {
	if sc.S != SRef || sc.Ty == nil {
		return "true"
	}
	pt, ok := sc.Ty.Underlying().(*types.Pointer)
	if !ok || structOf(pt.Elem()) == nil {
		return "true"
	}
	if sc.T == "rnil" {
		return "true"
	}
	return fmt.Sprintf("(or (= %s rnil) (= (dyntype %s) %d))", sc.T, sc.T, c.typeID(pt.Elem()))
}

func isErrVarName(n string) bool {
	return strings.HasPrefix(n, "Err") || strings.HasPrefix(n, "err") || n == "EOF"
}

// strLen: length of a string value in the index sort of the current arithmetic mode.
func (c *Ctx) strLen(t string) string { return fmt.Sprintf("(strlen %s)", t) }

// elemIdx: absolute index of element i of a slice with offset off. A defined function (sidx) is used instead of a
// bare sum so that quantified facts about slice elements have arithmetic-free triggers.
func (c *Ctx) elemIdx(off, i string) string {
	if off == c.ar.idx(0) {
		return i
	}
	// i == (abs - off): the absolute index itself (quantifiers over absolute indices, see SpecEnv.quant)
	for _, op := range []string{"(- ", "(bvsub "} {
		if strings.HasPrefix(i, op) && strings.HasSuffix(i, " "+off+")") {
			inner := i[len(op) : len(i)-len(off)-2]
			if balancedTerm(inner) {
				return inner
			}
		}
	}
	if _, ok := c.ar.numeral(off); ok {
		if _, ok2 := c.ar.numeral(i); ok2 {
			return c.idxAdd(off, i)
		}
	}
	return fmt.Sprintf("(sidx %s %s)", off, i)
}

// zeroFillFixedArray: zero-initialise a freshly allocated [N]T. Small arrays of struct elements are initialised
// element by element (plain stores, no quantified heap definition).
func (c *Ctx) zeroFillFixedArray(s *State, ref string, at *types.Array) {
	el := at.Elem()
	if structOf(el) != nil && at.Len() <= 8 {
		for i := int64(0); i < at.Len(); i++ {
			er := fmt.Sprintf("(mkelem %s %s)", ref, c.ar.idx(i))
			c.storeAt(s, Scalar{er, SRef, types.NewPointer(el)}, el, c.zeroVal(s, el))
		}
		return
	}
	c.zeroFillArray(s, ref, el)
}

// balancedTerm: s is a single atom or a single balanced s-expression.
func balancedTerm(s string) bool {
	if s == "" {
		return false
	}
	if s[0] != '(' {
		return !strings.ContainsAny(s, " ()")
	}
	d := 0
	for i, ch := range s {
		switch ch {
		case '(':
			d++
		case ')':
			d--
			if d == 0 && i != len(s)-1 {
				return false
			}
		}
	}
	return d == 0
}


// allocSrcName: the contract-level name of a variable cell. Unnamed results ("_") of a function are _0, _1, ... in the
// order of their cells in the function's entry block.
func allocSrcName(a *ssa.Alloc) string {
	if a.Comment != "_" {
		return a.Comment
	}
	k := 0
	for _, b := range a.Parent().Blocks {
		for _, in := range b.Instrs {
			if o, ok := in.(*ssa.Alloc); ok && o.Comment == "_" {
				if o == a {
					return fmt.Sprintf("_%d", k)
				}
				k++
			}
		}
	}
	return "_"
}

// blankFreeVarName: a captured unnamed result gets the same name inside the function literal as in the enclosing function
// (found through the MakeClosure that binds it); fallback: numbered by capture order.
func blankFreeVarName(fn *ssa.Function, fv *ssa.FreeVar, fallback int) string {
	idx := -1
	for i, f := range fn.FreeVars {
		if f == fv {
			idx = i
		}
	}
	if p := fn.Parent(); p != nil && idx >= 0 {
		for _, b := range p.Blocks {
			for _, in := range b.Instrs {
				if mc, ok := in.(*ssa.MakeClosure); ok && mc.Fn == fn && idx < len(mc.Bindings) {
					if a, ok := mc.Bindings[idx].(*ssa.Alloc); ok && a.Comment == "_" {
						return allocSrcName(a)
					}
				}
			}
		}
	}
	return fmt.Sprintf("_%d", fallback)
}


var blockReach = os.Getenv("GOVC_BLOCKREACH") != ""

func firstPos(b *ssa.BasicBlock) token.Pos {
	for _, in := range b.Instrs {
		if p := in.Pos(); p != token.NoPos {
			return p
		}
	}
	return token.NoPos
}

// checkCallers (opt calledfrom A | B): a precondition on the calling CONTEXT, decided by the generator itself on the
// loaded program — every reference to the function in the module's non-test code is a direct call (or defer/go) made by one
// of the listed functions. One obligation "callers:<caller>" per referring function: trivially true for a listed caller,
// false (reported as a violation without an input) for any other, and for any use of the function as a value.
func (c *Ctx) checkCallers(s *State, want string) {
	allowed := map[string]bool{}
	for _, w := range strings.Split(want, "|") {
		allowed[strings.TrimSpace(w)] = true
	}
	target := c.fn
	seen := map[string]bool{}
	var visit func(f *ssa.Function)
	report := func(f *ssa.Function, in ssa.Instruction, direct bool) {
		name := relFuncName(f)
		if f.Pkg != nil && target.Pkg != nil && f.Pkg != target.Pkg {
			name = f.Pkg.Pkg.Name() + "." + name
		}
		key := name
		if !direct {
			key += "#value"
		}
		if seen[key] {
			return
		}
		seen[key] = true
		goal := "false"
		if direct && allowed[name] {
			goal = "true"
		}
		what := "calls"
		if !direct {
			what = "uses as a value"
		}
		c.oblige(s.clone(), "callers", key, goal, fmt.Sprintf("%s %s %s; allowed callers: %s", name, what, relFuncName(target), want), in.Pos())
	}
	visit = func(f *ssa.Function) {
		for _, b := range f.Blocks {
			for _, in := range b.Instrs {
				var com *ssa.CallCommon
				switch x := in.(type) {
				case *ssa.Call:
					com = x.Common()
				case *ssa.Defer:
					com = x.Common()
				case *ssa.Go:
					com = x.Common()
				}
				if com != nil && !com.IsInvoke() {
					if callee, ok := com.Value.(*ssa.Function); ok && (callee == target || callee.Origin() == target) {
						report(f, in, true)
					}
				}
				for _, op := range in.Operands(nil) {
					if op == nil || *op == nil {
						continue
					}
					if callee, ok := (*op).(*ssa.Function); ok && (callee == target || (callee.Origin() != nil && callee.Origin() == target)) {
						if com != nil && com.Value == *op {
							continue
						}
						report(f, in, false)
					}
				}
			}
		}
		for _, a := range f.AnonFuncs {
			visit(a)
		}
	}
	for _, p := range c.eng.prog.AllPackages() {
		if p.Pkg == nil || !strings.HasPrefix(p.Pkg.Path(), c.eng.modPath) {
			continue
		}
		for _, m := range p.Members {
			switch mm := m.(type) {
			case *ssa.Function:
				visit(mm)
			case *ssa.Type:
				for _, t := range []types.Type{mm.Type(), types.NewPointer(mm.Type())} {
					ms := c.eng.prog.MethodSets.MethodSet(t)
					for i := 0; i < ms.Len(); i++ {
						if mf := c.eng.prog.MethodValue(ms.At(i)); mf != nil && mf.Synthetic == "" {
							visit(mf)
						}
					}
				}
			}
		}
	}
}

// errVarFacts: what is assumed about the value of a package-level error variable (io.EOF, Err*).
func (c *Ctx) errVarFacts(s *State, g *ssa.Global, iv IfaceV) {
	c.assumptions["package-level error variables (io.EOF, Err*) are non-nil, never reassigned, and each holds its own value (created once at package initialisation): distinct variables compare unequal, and unequal to any error created later"] = true
	c.assume(s, fmt.Sprintf("(not (= %s 0))", iv.Tag))
	// identity: the value of the variable is a constant object of its own, older than anything this function allocates
	idc := "errvar!" + sanitize(g.Pkg.Pkg.Path()+"."+g.Name())
	c.declGlobal("errvar:"+idc, fmt.Sprintf("(declare-const %s Int)\n(assert (= %s (- 0 %d)))", idc, idc, 1000000+c.eng.errVarID(g)))
	c.assume(s, fmt.Sprintf("(= %s (mkobj %s))", iv.PRef, idc))
}
