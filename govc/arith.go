package main

// Integer arithmetic encodings. Two modes, chosen per function:
//   int: SMT Int constrained to the machine range; +,-,* wrap exactly.
//   bv : fixed-width bit-vectors, exact.

import (
	"fmt"
	"go/constant"
	"go/token"
	"math/big"
	"strings"
)

type arith struct {
	bv bool
}

func (ar *arith) intSort(ii intInfo) Sort {
	if ar.bv {
		return bvSort(ii.bits)
	}
	return SInt
}

func (ar *arith) idxSort() Sort {
	if ar.bv {
		return bvSort(64)
	}
	return SInt
}

var bigOne = big.NewInt(1)

func pow2(n int) *big.Int { return new(big.Int).Lsh(bigOne, uint(n)) }

func smtInt(v *big.Int) string {
	if v.Sign() < 0 {
		return "(- " + new(big.Int).Neg(v).String() + ")"
	}
	return v.String()
}

func (ar *arith) lit(v *big.Int, ii intInfo) string {
	if ar.bv {
		m := new(big.Int).Mod(v, pow2(ii.bits))
		return fmt.Sprintf("(_ bv%s %d)", m.String(), ii.bits)
	}
	return smtInt(v)
}

func (ar *arith) litI(v int64, ii intInfo) string { return ar.lit(big.NewInt(v), ii) }

// idx literal (type int)
func (ar *arith) idx(v int64) string { return ar.litI(v, intInfo{64, true}) }

func minMax(ii intInfo) (*big.Int, *big.Int) {
	if ii.signed {
		lo := new(big.Int).Neg(pow2(ii.bits - 1))
		hi := new(big.Int).Sub(pow2(ii.bits-1), bigOne)
		return lo, hi
	}
	return big.NewInt(0), new(big.Int).Sub(pow2(ii.bits), bigOne)
}

// rangeAssume returns the constraint that t is within the machine range ("" if none needed).
func (ar *arith) rangeAssume(t string, ii intInfo) string {
	if ar.bv {
		return ""
	}
	lo, hi := minMax(ii)
	return fmt.Sprintf("(and (<= %s %s) (<= %s %s))", smtInt(lo), t, t, smtInt(hi))
}

// wrap reduces a mathematical integer term into the machine range (int mode).
func (ar *arith) wrap(t string, ii intInfo) string {
	m := pow2(ii.bits).String()
	if !ii.signed {
		return fmt.Sprintf("(mod %s %s)", t, m)
	}
	h := pow2(ii.bits - 1).String()
	return fmt.Sprintf("(- (mod (+ %s %s) %s) %s)", t, h, m, h)
}

// wrap1 wraps a term known to be at most one modulus away from the range (result of +/-).
func (ar *arith) wrap1(t string, ii intInfo) string {
	lo, hi := minMax(ii)
	m := pow2(ii.bits).String()
	return fmt.Sprintf("(let ((wr %s)) (ite (> wr %s) (- wr %s) (ite (< wr %s) (+ wr %s) wr)))", t, smtInt(hi), m, smtInt(lo), m)
}

func isNumeral(t string) (*big.Int, bool) {
	s := t
	neg := false
	if strings.HasPrefix(s, "(- ") && strings.HasSuffix(s, ")") {
		s = s[3 : len(s)-1]
		neg = true
	}
	if s == "" {
		return nil, false
	}
	for _, c := range s {
		if c < '0' || c > '9' {
			return nil, false
		}
	}
	v, ok := new(big.Int).SetString(s, 10)
	if !ok {
		return nil, false
	}
	if neg {
		v.Neg(v)
	}
	return v, true
}

func (ar *arith) bvNumeral(t string) (*big.Int, bool) {
	if strings.HasPrefix(t, "(_ bv") {
		f := strings.Fields(t[5 : len(t)-1])
		if len(f) == 2 {
			v, ok := new(big.Int).SetString(f[0], 10)
			return v, ok
		}
	}
	return nil, false
}

func (ar *arith) numeral(t string) (*big.Int, bool) {
	if ar.bv {
		return ar.bvNumeral(t)
	}
	return isNumeral(t)
}

// binop encodes a Go binary arithmetic operator on two operands of integer type ii.
// For shifts, y has type iy. Returns term and an optional side condition (div0).
func (ar *arith) binop(op token.Token, x, y string, ii intInfo, iy intInfo) (string, string) {
	if ar.bv {
		return ar.binopBV(op, x, y, ii, iy)
	}
	switch op {
	case token.ADD:
		return ar.wrap1(fmt.Sprintf("(+ %s %s)", x, y), ii), ""
	case token.SUB:
		return ar.wrap1(fmt.Sprintf("(- %s %s)", x, y), ii), ""
	case token.MUL:
		return ar.wrap(fmt.Sprintf("(* %s %s)", x, y), ii), ""
	case token.QUO:
		cond := fmt.Sprintf("(not (= %s 0))", y)
		if !ii.signed {
			return fmt.Sprintf("(div %s %s)", x, y), cond
		}
		// truncated division
		q := fmt.Sprintf("(let ((qa %s) (qb %s)) (ite (>= qa 0) (ite (> qb 0) (div qa qb) (- (div qa (- qb)))) (ite (> qb 0) (- (div (- qa) qb)) (div (- qa) (- qb)))))", x, y)
		return ar.wrap(q, ii), cond // MinInt / -1 wraps
	case token.REM:
		cond := fmt.Sprintf("(not (= %s 0))", y)
		if !ii.signed {
			return fmt.Sprintf("(mod %s %s)", x, y), cond
		}
		r := fmt.Sprintf("(let ((qa %s) (qb %s)) (ite (>= qa 0) (mod qa (abs qb)) (- (mod (- qa) (abs qb)))))", x, y)
		return r, cond
	case token.SHL:
		if k, ok := isNumeral(y); ok {
			if k.Cmp(big.NewInt(int64(ii.bits))) >= 0 {
				return "0", ""
			}
			return ar.wrap(fmt.Sprintf("(* %s %s)", x, pow2(int(k.Int64())).String()), ii), ""
		}
		return ar.wrap(fmt.Sprintf("(* %s %s)", x, ar.pow2Term(y, ii.bits)), ii), ""
	case token.SHR:
		if k, ok := isNumeral(y); ok {
			if k.Cmp(big.NewInt(int64(ii.bits))) >= 0 {
				if ii.signed {
					return fmt.Sprintf("(ite (< %s 0) (- 1) 0)", x), ""
				}
				return "0", ""
			}
			return fmt.Sprintf("(div %s %s)", x, pow2(int(k.Int64())).String()), ""
		}
		return fmt.Sprintf("(div %s %s)", x, ar.pow2Term(y, ii.bits)), ""
	case token.AND:
		if k, ok := isNumeral(y); ok {
			return ar.andConst(x, k, ii), ""
		}
		if k, ok := isNumeral(x); ok {
			return ar.andConst(y, k, ii), ""
		}
		return fmt.Sprintf("(bitand%d %s %s)", ii.bits, x, y), ""
	case token.OR:
		return fmt.Sprintf("(bitor%d %s %s)", ii.bits, x, y), ""
	case token.XOR:
		return fmt.Sprintf("(bitxor%d %s %s)", ii.bits, x, y), ""
	case token.AND_NOT:
		if k, ok := isNumeral(y); ok && !ii.signed {
			_, hi := minMax(ii)
			nk := new(big.Int).Xor(hi, k)
			return ar.andConst(x, nk, ii), ""
		}
		return fmt.Sprintf("(bitandnot%d %s %s)", ii.bits, x, y), ""
	}
	unsup("binop %v", op)
	return "", ""
}

// pow2Term: 2^y as an ite chain (y unsigned shift count); yields a huge value making x*.. wrap to 0 when y>=bits.
func (ar *arith) pow2Term(y string, bits int) string {
	var sb strings.Builder
	sb.WriteString(fmt.Sprintf("(let ((sh %s)) ", y))
	for i := 0; i < bits; i++ {
		sb.WriteString(fmt.Sprintf("(ite (= sh %d) %s ", i, pow2(i).String()))
	}
	sb.WriteString(pow2(bits).String())
	sb.WriteString(strings.Repeat(")", bits))
	sb.WriteString(")")
	return sb.String()
}

// andConst: x & k for constant k, non-negative x (or signed treated via mod): decompose k into contiguous runs of ones.
func (ar *arith) andConst(x string, k *big.Int, ii intInfo) string {
	if k.Sign() == 0 {
		return "0"
	}
	if k.Sign() < 0 {
		// two's complement representation
		k = new(big.Int).Add(k, pow2(ii.bits))
	}
	xx := x
	if ii.signed {
		xx = fmt.Sprintf("(mod %s %s)", x, pow2(ii.bits).String())
	}
	var parts []string
	i := 0
	for i < ii.bits {
		if k.Bit(i) == 0 {
			i++
			continue
		}
		j := i
		for j < ii.bits && k.Bit(j) == 1 {
			j++
		}
		// bits [i, j)
		var p string
		if i == 0 {
			p = fmt.Sprintf("(mod %s %s)", xx, pow2(j).String())
		} else {
			p = fmt.Sprintf("(* %s (mod (div %s %s) %s))", pow2(i).String(), xx, pow2(i).String(), pow2(j-i).String())
		}
		parts = append(parts, p)
		i = j
	}
	var r string
	if len(parts) == 1 {
		r = parts[0]
	} else {
		r = "(+ " + strings.Join(parts, " ") + ")"
	}
	if ii.signed {
		r = ar.wrap(r, ii)
	}
	return r
}

func (ar *arith) binopBV(op token.Token, x, y string, ii intInfo, iy intInfo) (string, string) {
	zero := ar.litI(0, ii)
	switch op {
	case token.ADD:
		return fmt.Sprintf("(bvadd %s %s)", x, y), ""
	case token.SUB:
		return fmt.Sprintf("(bvsub %s %s)", x, y), ""
	case token.MUL:
		return fmt.Sprintf("(bvmul %s %s)", x, y), ""
	case token.QUO:
		cond := fmt.Sprintf("(not (= %s %s))", y, zero)
		if ii.signed {
			return fmt.Sprintf("(bvsdiv %s %s)", x, y), cond
		}
		return fmt.Sprintf("(bvudiv %s %s)", x, y), cond
	case token.REM:
		cond := fmt.Sprintf("(not (= %s %s))", y, zero)
		if ii.signed {
			return fmt.Sprintf("(bvsrem %s %s)", x, y), cond
		}
		return fmt.Sprintf("(bvurem %s %s)", x, y), cond
	case token.SHL, token.SHR:
		// bring shift count to width of x
		yy := ar.convBV(y, iy, intInfo{ii.bits, false})
		if iy.bits > ii.bits {
			// saturate: if y >= bits then shift by bits
			yy = fmt.Sprintf("(ite (bvuge %s %s) %s %s)", y, ar.litI(int64(ii.bits), iy), ar.litI(int64(ii.bits), ii), yy)
		}
		if op == token.SHL {
			return fmt.Sprintf("(bvshl %s %s)", x, yy), ""
		}
		if ii.signed {
			return fmt.Sprintf("(bvashr %s %s)", x, yy), ""
		}
		return fmt.Sprintf("(bvlshr %s %s)", x, yy), ""
	case token.AND:
		return fmt.Sprintf("(bvand %s %s)", x, y), ""
	case token.OR:
		return fmt.Sprintf("(bvor %s %s)", x, y), ""
	case token.XOR:
		return fmt.Sprintf("(bvxor %s %s)", x, y), ""
	case token.AND_NOT:
		return fmt.Sprintf("(bvand %s (bvnot %s))", x, y), ""
	}
	unsup("bv binop %v", op)
	return "", ""
}

func (ar *arith) convBV(x string, from, to intInfo) string {
	if from.bits == to.bits {
		return x
	}
	if from.bits > to.bits {
		return fmt.Sprintf("((_ extract %d 0) %s)", to.bits-1, x)
	}
	if from.signed {
		return fmt.Sprintf("((_ sign_extend %d) %s)", to.bits-from.bits, x)
	}
	return fmt.Sprintf("((_ zero_extend %d) %s)", to.bits-from.bits, x)
}

// conv converts integer x of type `from` to type `to`.
func (ar *arith) conv(x string, from, to intInfo) string {
	if ar.bv {
		return ar.convBV(x, from, to)
	}
	if from == to {
		return x
	}
	flo, fhi := minMax(from)
	tlo, thi := minMax(to)
	if flo.Cmp(tlo) >= 0 && fhi.Cmp(thi) <= 0 {
		return x // widening
	}
	if v, ok := isNumeral(x); ok {
		if v.Cmp(tlo) >= 0 && v.Cmp(thi) <= 0 {
			return x
		}
	}
	// same width sign change or narrowing
	if from.bits == to.bits {
		m := pow2(to.bits).String()
		if to.signed {
			return fmt.Sprintf("(let ((cv %s)) (ite (> cv %s) (- cv %s) cv))", x, smtInt(thi), m)
		}
		return fmt.Sprintf("(let ((cv %s)) (ite (< cv 0) (+ cv %s) cv))", x, m)
	}
	return ar.wrap(x, to)
}

func (ar *arith) cmp(op token.Token, x, y string, ii intInfo) string {
	if !ar.bv {
		switch op {
		case token.LSS:
			return fmt.Sprintf("(< %s %s)", x, y)
		case token.LEQ:
			return fmt.Sprintf("(<= %s %s)", x, y)
		case token.GTR:
			return fmt.Sprintf("(> %s %s)", x, y)
		case token.GEQ:
			return fmt.Sprintf("(>= %s %s)", x, y)
		}
	} else {
		p := "bvu"
		if ii.signed {
			p = "bvs"
		}
		switch op {
		case token.LSS:
			return fmt.Sprintf("(%slt %s %s)", p, x, y)
		case token.LEQ:
			return fmt.Sprintf("(%sle %s %s)", p, x, y)
		case token.GTR:
			return fmt.Sprintf("(%sgt %s %s)", p, x, y)
		case token.GEQ:
			return fmt.Sprintf("(%sge %s %s)", p, x, y)
		}
	}
	switch op {
	case token.EQL:
		return fmt.Sprintf("(= %s %s)", x, y)
	case token.NEQ:
		return fmt.Sprintf("(not (= %s %s))", x, y)
	}
	unsup("cmp %v", op)
	return ""
}

func (ar *arith) neg(x string, ii intInfo) string {
	if ar.bv {
		return fmt.Sprintf("(bvneg %s)", x)
	}
	return ar.wrap1(fmt.Sprintf("(- %s)", x), ii)
}

func (ar *arith) not(x string, ii intInfo) string {
	if ar.bv {
		return fmt.Sprintf("(bvnot %s)", x)
	}
	if ii.signed {
		return fmt.Sprintf("(- (- %s) 1)", x)
	}
	_, hi := minMax(ii)
	return fmt.Sprintf("(- %s %s)", hi.String(), x)
}

// constInt renders a Go constant as a literal of type ii.
func (ar *arith) constInt(c constant.Value, ii intInfo) string {
	c = constant.ToInt(c)
	if c.Kind() != constant.Int {
		unsup("non-integer constant %v", c)
	}
	v, ok := new(big.Int).SetString(c.ExactString(), 10)
	if !ok {
		unsup("bad int constant %v", c)
	}
	return ar.lit(v, ii)
}

func realLit(c constant.Value) string {
	c = constant.ToFloat(c)
	r, ok := new(big.Rat).SetString(c.ExactString())
	if !ok {
		unsup("bad float constant %v", c)
	}
	num, den := r.Num(), r.Denom()
	s := fmt.Sprintf("(/ %s.0 %s.0)", new(big.Int).Abs(num).String(), den.String())
	if num.Sign() < 0 {
		s = "(- " + s + ")"
	}
	return s
}

// intToReal / realToInt
func (ar *arith) intToReal(x string, ii intInfo) string {
	if ar.bv {
		if ii.signed {
			unsup("signed bv to real")
		}
		return fmt.Sprintf("(to_real (bv2nat %s))", x)
	}
	return fmt.Sprintf("(to_real %s)", x)
}

func (ar *arith) realToInt(x string, ii intInfo) string {
	if ar.bv {
		unsup("real to bv conversion")
	}
	// Go truncates toward zero; out-of-range is implementation-defined: we wrap.
	t := fmt.Sprintf("(let ((fr %s)) (ite (>= fr 0.0) (to_int fr) (- (to_int (- fr)))))", x)
	return ar.wrap(t, ii)
}
