package main

// Enumeration of the entry state reachable from the parameters, for replay.
//
// Every location whose entry value a verification condition can depend on (its heap array is declared in the function's
// SMT script) is listed with the SMT term of that value: scalar fields, pointer fields (followed into the pointee),
// slices (length, backing array, and the first few elements, followed into struct/pointer elements), arrays of scalars,
// strings (identity and length), interfaces (dynamic type tag; the concrete object where the interface is
// devirtualised or the tag names a type the engine has seen). The list is computed once per function after symbolic
// execution; the model values of these terms drive the construction of real Go objects in the replay test.

import (
	"fmt"
	"go/token"
	"go/types"
)

const (
	replayMaxDepth     = 5
	replayElems        = 4  // elements of a slice of structs / pointers that are followed
	replayScalarElems  = 48 // elements of a slice or array of scalars that are read
	replayMaxLocations = 1500
)

// entryFieldVars enumerates the locations reachable from the parameters.
func (c *Ctx) entryFieldVars(extraKeys []string) []fieldVar {
	var out []fieldVar
	if c.fn == nil || c.entryEnvVars == nil {
		return nil
	}
	heap0 := func(name string) (string, bool) {
		if c.declSet["heap:"+name] {
			return q(name + "@0"), true
		}
		return "", false
	}
	seenRef := map[string]bool{}
	emit := func(fv fieldVar) bool {
		if len(out) >= replayMaxLocations {
			return false
		}
		out = append(out, fv)
		return true
	}
	var walkVal func(path string, v Val, t types.Type, depth int)
	var walkStructAt func(path, ref string, t types.Type, depth int)
	type mapLoc struct {
		path, ref string
		mt        *types.Map
		depth     int
	}
	var maps []mapLoc

	// fieldVal builds the entry value of field i of the struct at ref (nil when no VC reads it)
	fieldVal := func(ref string, t types.Type, i int) Val {
		st := structOf(t)
		f := st.Field(i)
		ft := f.Type()
		owner := typeName(t)
		if isAggregate(ft) {
			return nil // handled by the caller (sub-object)
		}
		cs := c.ar.comps(ft)
		if cs == nil {
			return nil
		}
		var terms []string
		for _, cp := range cs {
			h, ok := heap0(fieldHeapName(owner, f.Name(), cp.Path))
			if !ok {
				return nil
			}
			terms = append(terms, fmt.Sprintf("(select %s %s)", h, ref))
		}
		switch ft.Underlying().(type) {
		case *types.Slice:
			return SliceV{terms[0], terms[1], terms[2], terms[3], ft}
		case *types.Interface:
			return IfaceV{terms[0], terms[1], terms[2], ft}
		}
		return Scalar{terms[0], cs[0].S, ft}
	}
	elemVal := func(arr, idx string, et types.Type) Val {
		cs := c.ar.comps(et)
		if cs == nil {
			return nil
		}
		var terms []string
		for _, cp := range cs {
			h, ok := heap0(elemHeapName(et, cp.Path))
			if !ok {
				return nil
			}
			terms = append(terms, fmt.Sprintf("(select (select %s %s) %s)", h, arr, idx))
		}
		switch et.Underlying().(type) {
		case *types.Slice:
			return SliceV{terms[0], terms[1], terms[2], terms[3], et}
		case *types.Interface:
			return IfaceV{terms[0], terms[1], terms[2], et}
		}
		return Scalar{terms[0], cs[0].S, et}
	}
	scalarArrayAt := func(path, ref string, at *types.Array) {
		es, ok := c.ar.sortOfScalar(at.Elem())
		if !ok || es == SRef || es == SStr || es == SReal {
			return
		}
		h, ok := heap0(elemHeapName(at.Elem(), ""))
		if !ok {
			return
		}
		n := at.Len()
		if n > replayScalarElems {
			n = replayScalarElems
		}
		for k := int64(0); k < n; k++ {
			emit(fieldVar{Path: fmt.Sprintf("%s[%d]", path, k), Term: fmt.Sprintf("(select (select %s %s) %s)", h, ref, c.ar.idx(k)), Ty: at.Elem(), Kind: "scalar"})
		}
	}
	walkStructAt = func(path, ref string, t types.Type, depth int) {
		st := structOf(t)
		if st == nil || depth > replayMaxDepth {
			return
		}
		key := path
		if seenRef[key] {
			return
		}
		seenRef[key] = true
		for i := 0; i < st.NumFields(); i++ {
			f := st.Field(i)
			fp := path + "." + f.Name()
			ft := f.Type()
			switch u := ft.Underlying().(type) {
			case *types.Struct:
				walkStructAt(fp, fmt.Sprintf("(mksub %s %d)", ref, i), ft, depth)
				continue
			case *types.Array:
				aref := fmt.Sprintf("(mksub %s %d)", ref, i)
				if structOf(u.Elem()) != nil {
					// small array of structs: the elements are objects (mkelem <array> k)
					for k := int64(0); k < u.Len() && k < 8; k++ {
						walkStructAt(fmt.Sprintf("%s[%d]", fp, k), fmt.Sprintf("(mkelem %s %s)", aref, c.ar.idx(k)), u.Elem(), depth+1)
					}
					continue
				}
				scalarArrayAt(fp, aref, u)
				continue
			case *types.Map:
				if h, ok := heap0(fieldHeapName(typeName(t), f.Name(), "")); ok {
					mref := fmt.Sprintf("(select %s %s)", h, ref)
					emit(fieldVar{Path: fp, Term: mref, Ty: ft, Kind: "map"})
					maps = append(maps, mapLoc{fp, mref, u, depth})
				}
				continue
			case *types.Chan:
				emit(fieldVar{Path: fp, Ty: ft, Kind: "chan"})
				continue
			}
			if v := fieldVal(ref, t, i); v != nil {
				walkVal(fp, v, ft, depth)
			}
		}
	}
	walkVal = func(path string, v Val, t types.Type, depth int) {
		if depth > replayMaxDepth || len(out) >= replayMaxLocations {
			return
		}
		switch x := v.(type) {
		case Scalar:
			if x.T == "" {
				return
			}
			switch u := t.Underlying().(type) {
			case *types.Basic:
				switch {
				case u.Info()&types.IsString != 0:
					emit(fieldVar{Path: path, Term: x.T, Ty: t, Kind: "string", Extra: []string{c.strLen(x.T)}})
				case u.Info()&(types.IsInteger|types.IsBoolean) != 0:
					emit(fieldVar{Path: path, Term: x.T, Ty: t, Kind: "scalar"})
				}
			case *types.Pointer:
				if x.S != SRef {
					return
				}
				emit(fieldVar{Path: path, Term: x.T, Ty: t, Kind: "ptr"})
				if structOf(u.Elem()) != nil {
					walkStructAt(path, x.T, u.Elem(), depth+1)
				} else if at, ok := u.Elem().Underlying().(*types.Array); ok {
					scalarArrayAt(path, x.T, at)
				} else if cs := c.ar.comps(u.Elem()); len(cs) == 1 && (cs[0].S != SRef && cs[0].S != SStr && cs[0].S != SReal) {
					if h, ok := heap0(fieldHeapName("cell", typeName(u.Elem()), "")); ok {
						emit(fieldVar{Path: path + ".*", Term: fmt.Sprintf("(select %s %s)", h, x.T), Ty: u.Elem(), Kind: "scalar"})
					}
				}
			}
		case SliceV:
			st, ok := t.Underlying().(*types.Slice)
			if !ok {
				return
			}
			emit(fieldVar{Path: path, Term: x.Len, Ty: t, Kind: "slice-len", Extra: []string{x.Arr, x.Off, x.Cap}})
			et := st.Elem()
			n := int64(replayElems)
			if es, ok := c.ar.sortOfScalar(et); ok && es != SRef && es != SStr {
				n = replayScalarElems
			}
			for k := int64(0); k < n; k++ {
				idx := c.idxAdd(x.Off, c.ar.idx(k))
				ep := fmt.Sprintf("%s[%d]", path, k)
				if structOf(et) != nil {
					walkStructAt(ep, fmt.Sprintf("(mkelem %s %s)", x.Arr, idx), et, depth+1)
					continue
				}
				if ev := elemVal(x.Arr, idx, et); ev != nil {
					walkVal(ep, ev, et, depth+1)
				} else {
					break
				}
			}
		case StructV:
			st := structOf(t)
			if st == nil {
				return
			}
			for i := 0; i < st.NumFields() && i < len(x.F); i++ {
				walkVal(path+"."+st.Field(i).Name(), x.F[i], st.Field(i).Type(), depth)
			}
		case ArrayV:
			at, ok := t.Underlying().(*types.Array)
			if !ok {
				return
			}
			if es, ok := c.ar.sortOfScalar(at.Elem()); !ok || es == SRef || es == SStr || es == SReal {
				return
			}
			n := at.Len()
			if n > replayScalarElems {
				n = replayScalarElems
			}
			for k := int64(0); k < n; k++ {
				emit(fieldVar{Path: fmt.Sprintf("%s[%d]", path, k), Term: fmt.Sprintf("(select %s %s)", x.Term, c.ar.idx(k)), Ty: at.Elem(), Kind: "scalar"})
			}
		case FixedArrV:
			at, ok := t.Underlying().(*types.Array)
			if !ok {
				return
			}
			for k := range x.E {
				walkVal(fmt.Sprintf("%s[%d]", path, k), x.E[k], at.Elem(), depth)
			}
		case IfaceV:
			it, ok := t.Underlying().(*types.Interface)
			if !ok {
				return
			}
			emit(fieldVar{Path: path, Term: x.Tag, Ty: t, Kind: "iface-tag", Extra: []string{x.PRef, x.PInt}})
			// candidate concrete types: the devirtualisation target, else the types the engine has met that implement it
			var cands []types.Type
			if _, ct := c.eng.devirt(t, firstMethod(it)); ct != nil {
				cands = append(cands, ct)
			} else {
				cands = c.eng.implementers(it, 6)
			}
			for _, ct := range cands {
				if pt, ok := ct.Underlying().(*types.Pointer); ok && structOf(pt.Elem()) != nil {
					walkStructAt(path+".("+fmt.Sprint(c.typeID(ct))+")", x.PRef, pt.Elem(), depth+1)
				}
			}
		}
	}
	for _, p := range c.fn.Params {
		v, ok := c.entryEnvVars[p.Name()]
		if !ok || p.Name() == "" || p.Name() == "_" {
			continue
		}
		walkVal(p.Name(), v, p.Type(), 0)
	}
	// maps: the keys worth asking about are the entry scalars of the key's type (parameters, fields); for each the
	// model says whether it is present and with which value. The cardinality is read too (filled up with other keys).
	for mi := 0; mi < len(maps) && mi < 8; mi++ {
		ml := maps[mi]
		ks, ok := c.ar.sortOfScalar(ml.mt.Key())
		if !ok || ks == SRef || ks == SStr || ks == SReal || ks == SBool {
			continue
		}
		base := "M:" + typeName(ml.mt)
		ph, ok := heap0(base + "#present")
		if !ok {
			continue
		}
		if ch, ok := heap0(base + "#card"); ok {
			emit(fieldVar{Path: ml.path, Term: fmt.Sprintf("(select %s %s)", ch, ml.ref), Ty: ml.mt, Kind: "map-card"})
		}
		var keys []string
		seenKey := map[string]bool{}
		for _, fv := range out {
			if fv.Kind == "scalar" && fv.Term != "" && types.Identical(fv.Ty, ml.mt.Key()) && !seenKey[fv.Term] && len(keys) < 6 {
				seenKey[fv.Term] = true
				keys = append(keys, fv.Term)
			}
		}
		var mapVal func(kt string, t types.Type, path string) Val
		mapVal = func(kt string, t types.Type, path string) Val {
			if st := structOf(t); st != nil {
				sv := StructV{Ty: t}
				for i := 0; i < st.NumFields(); i++ {
					fvv := mapVal(kt, st.Field(i).Type(), path+"."+st.Field(i).Name())
					if fvv == nil {
						fvv = Scalar{"", "", st.Field(i).Type()} // not read by any VC
					}
					sv.F = append(sv.F, fvv)
				}
				return sv
			}
			cs := c.ar.comps(t)
			if cs == nil {
				return nil
			}
			var terms []string
			for _, cp := range cs {
				h, ok := heap0(base + "#val" + path + cp.Path)
				if !ok {
					return nil
				}
				terms = append(terms, fmt.Sprintf("(select (select %s %s) %s)", h, ml.ref, kt))
			}
			switch t.Underlying().(type) {
			case *types.Slice:
				return SliceV{terms[0], terms[1], terms[2], terms[3], t}
			case *types.Interface:
				return IfaceV{terms[0], terms[1], terms[2], t}
			}
			return Scalar{terms[0], cs[0].S, t}
		}
		if ks == c.ar.idxSort() {
			for _, k := range extraKeys {
				if !seenKey[k] {
					seenKey[k] = true
					keys = append(keys, k)
				}
			}
		}
		for j, kt := range keys {
			ep := fmt.Sprintf("%s{%d}", ml.path, j)
			emit(fieldVar{Path: ep, Term: fmt.Sprintf("(select (select %s %s) %s)", ph, ml.ref, kt), Ty: ml.mt.Elem(), Kind: "map-entry", Extra: []string{kt}})
			if v := mapVal(kt, ml.mt.Elem(), ""); v != nil {
				walkVal(ep, v, ml.mt.Elem(), ml.depth+1)
			}
		}
	}
	// free variables of closures are not constructible; string literals: identify model values with their text
	for lit, n := range c.strLits {
		if len(lit) <= 256 {
			emit(fieldVar{Path: "#strlit", Term: n, Kind: "strlit", Lit: lit})
		}
	}
	return out
}

// implementers lists up to max pointer-to-struct types met so far (type assertions, conversions to interfaces) whose
// method set satisfies the interface.
func (e *Engine) implementers(it *types.Interface, max int) []types.Type {
	e.mu.Lock()
	list := append([]types.Type(nil), e.typeList...)
	e.mu.Unlock()
	var out []types.Type
	if it.NumMethods() == 0 {
		return nil
	}
	for _, t := range list {
		if t == nil {
			continue
		}
		if _, ok := t.Underlying().(*types.Pointer); !ok {
			continue
		}
		if types.Implements(t, it) {
			out = append(out, t)
			if len(out) > max {
				return nil // too many candidates: do not guess
			}
		}
	}
	return out
}

// modelHints: staged bounds on the sizes of the entry slices (tight: what the replay can populate element by element;
// loose: what it can allocate). They are conjoined to a failed obligation's query only to pick a small counterexample.
func (c *Ctx) modelHints(fv []fieldVar) [][]string {
	le := func(t string, n int64) string { return c.idxCmp(token.LEQ, t, c.ar.idx(n)) }
	var tight, loose []string
	for _, f := range fv {
		if f.Kind != "slice-len" || len(f.Extra) < 3 {
			continue
		}
		n := int64(replayElems)
		if st, ok := f.Ty.Underlying().(*types.Slice); ok {
			if es, ok := c.ar.sortOfScalar(st.Elem()); ok && es != SRef && es != SStr {
				n = replayScalarElems
			}
		}
		tight = append(tight, le(f.Term, n), le(f.Extra[1], 8), le(f.Extra[2], 2*n))
		loose = append(loose, le(f.Term, 4096), le(f.Extra[1], 4096), le(f.Extra[2], 65536))
	}
	// small numbers first: a counterexample found against a callee's contract reproduces on the callee's body far more
	// often when budgets, windows and offsets are small
	var small []string
	for _, f := range fv {
		if f.Kind != "scalar" || f.Term == "" {
			continue
		}
		if ii, ok := isIntType(f.Ty); ok && ii.bits >= 32 {
			small = append(small, c.ar.cmp(token.LEQ, f.Term, c.ar.litI(64, ii), ii))
		}
	}
	var out [][]string
	if len(small) > 0 {
		out = append(out, append(append([]string(nil), tight...), small...))
	}
	if len(tight) > 0 {
		out = append(out, tight, loose)
	}
	return out
}
