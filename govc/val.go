package main

// Symbolic values and the mapping from Go types to SMT sorts.
//
// Heap model (Burstall/Bornat component model):
//   - every addressable aggregate (struct, array) has a reference of the SMT
//     datatype Ref: mkobj(id) for allocated objects, mksub(parent, fieldIdx)
//     for embedded struct/array fields, mkelem(arr, idx) for slice/array
//     elements of struct type.
//   - one SMT array per (named struct type, scalar component of a field):
//     "T.f" : (Array Ref sort).  Slices flatten into 4 components, interfaces
//     into 3.
//   - one SMT array per element type for slice/array backing stores:
//     "elem:T" : (Array Ref (Array Int sort)).
//   - maps: "map:K:V#present" etc.

import (
	"fmt"
	"go/types"
	"strings"
)

type Sort string

const (
	SInt  Sort = "Int"
	SBool Sort = "Bool"
	SReal Sort = "Real"
	SRef  Sort = "Ref"
	SStr  Sort = "Str"
)

func bvSort(n int) Sort { return Sort(fmt.Sprintf("(_ BitVec %d)", n)) }

// Val is a symbolic value.
type Val interface{ Type() types.Type }

// Scalar: ints, bools, floats, strings, pointers to aggregates, maps, chans, funcs.
type Scalar struct {
	T  string // SMT term
	S  Sort
	Ty types.Type
}

func (s Scalar) Type() types.Type { return s.Ty }

type SliceV struct {
	Arr, Off, Len, Cap string
	Ty                 types.Type // slice type (or string for []byte(string)?)
}

func (s SliceV) Type() types.Type { return s.Ty }

type IfaceV struct {
	Tag, PRef, PInt string
	Ty              types.Type
}

func (s IfaceV) Type() types.Type { return s.Ty }

type StructV struct {
	F  []Val
	Ty types.Type
}

func (s StructV) Type() types.Type { return s.Ty }

// ArrayV: a Go array value held in a register; Term has sort (Array Int elemSort).
// Only arrays of scalar element types are supported as values.
type ArrayV struct {
	Term string
	Ty   types.Type
}

func (s ArrayV) Type() types.Type { return s.Ty }

// FixedArrV: value of a small fixed-size array whose elements are not scalars (e.g. [2]struct): one Val per element.
type FixedArrV struct {
	E  []Val
	Ty types.Type
}

func (s FixedArrV) Type() types.Type { return s.Ty }

type TupleV struct {
	E  []Val
	Ty types.Type
}

func (s TupleV) Type() types.Type { return s.Ty }

// LocV: pointer to a non-aggregate cell.
type LocKind int

const (
	LocField LocKind = iota // Heap[Base]
	LocElem                 // Heap[Arr][Idx]
	LocLocal                // local variable #ID in the frame
	LocCell                 // cell heap for *T params: "cell:T"[Base]
)

type LocV struct {
	Kind  LocKind
	Base  string // Ref term (field base, elem arr, cell ref)
	Idx   string // elem index
	Field *fieldRef
	Local *localCell
	Proj  []string   // projection into a local aggregate: "f:<idx>" or "i:<term>"
	Ty    types.Type // pointer type
}

func (s LocV) Type() types.Type { return s.Ty }

type localCell struct {
	id  int
	val Val
}

// fieldRef identifies a field of a named struct type.
type fieldRef struct {
	Owner string // qualified struct type name, e.g. "flowcontrol.baseFlowController"
	Name  string
	Index int
	Ty    types.Type
}

// ClosureV: a function value with statically known target.
type ClosureV struct {
	Fn       interface{} // *ssa.Function
	Bindings []Val
	Term     string // Fn id term
	Ty       types.Type
}

func (s ClosureV) Type() types.Type { return s.Ty }

// ---------- type classification ----------

type intInfo struct {
	bits   int
	signed bool
}

func basicIntInfo(b *types.Basic) (intInfo, bool) {
	switch b.Kind() {
	case types.Int8:
		return intInfo{8, true}, true
	case types.Int16:
		return intInfo{16, true}, true
	case types.Int32:
		return intInfo{32, true}, true
	case types.Int64, types.Int, types.UntypedInt, types.UntypedRune:
		return intInfo{64, true}, true
	case types.Uint8:
		return intInfo{8, false}, true
	case types.Uint16:
		return intInfo{16, false}, true
	case types.Uint32:
		return intInfo{32, false}, true
	case types.Uint64, types.Uint, types.Uintptr:
		return intInfo{64, false}, true
	}
	return intInfo{}, false
}

func isIntType(t types.Type) (intInfo, bool) {
	if b, ok := t.Underlying().(*types.Basic); ok {
		return basicIntInfo(b)
	}
	return intInfo{}, false
}

func isFloatType(t types.Type) bool {
	if b, ok := t.Underlying().(*types.Basic); ok {
		return b.Info()&types.IsFloat != 0
	}
	return false
}

func isBoolType(t types.Type) bool {
	if b, ok := t.Underlying().(*types.Basic); ok {
		return b.Info()&types.IsBoolean != 0
	}
	return false
}

func isStringType(t types.Type) bool {
	if b, ok := t.Underlying().(*types.Basic); ok {
		return b.Info()&types.IsString != 0
	}
	return false
}

func structOf(t types.Type) *types.Struct {
	s, _ := t.Underlying().(*types.Struct)
	return s
}

// typeName returns a short stable name for a type, used in heap array names.
func typeName(t types.Type) string {
	t = types.Unalias(t)
	switch x := t.(type) {
	case *types.Named:
		obj := x.Obj()
		n := obj.Name()
		if obj.Pkg() != nil {
			n = obj.Pkg().Name() + "." + n
		}
		if ta := x.TypeArgs(); ta != nil && ta.Len() > 0 {
			var as []string
			for i := 0; i < ta.Len(); i++ {
				as = append(as, typeName(ta.At(i)))
			}
			n += "[" + strings.Join(as, ",") + "]"
		}
		return n
	case *types.Pointer:
		return "*" + typeName(x.Elem())
	case *types.Slice:
		return "[]" + typeName(x.Elem())
	case *types.Array:
		return fmt.Sprintf("[%d]%s", x.Len(), typeName(x.Elem()))
	case *types.Map:
		return "map[" + typeName(x.Key()) + "]" + typeName(x.Elem())
	case *types.Basic:
		switch x.Kind() {
		case types.Uint8:
			return "uint8"
		case types.Int32:
			return "int32"
		}
		return x.Name()
	case *types.TypeParam:
		return "$" + x.Obj().Name()
	case *types.Struct:
		var fs []string
		for i := 0; i < x.NumFields(); i++ {
			fs = append(fs, x.Field(i).Name()+" "+typeName(x.Field(i).Type()))
		}
		return "struct{" + strings.Join(fs, ";") + "}"
	case *types.Interface:
		if x.NumMethods() == 0 {
			return "any"
		}
		return "iface{" + x.String() + "}"
	case *types.Signature:
		return "func"
	case *types.Chan:
		return "chan " + typeName(x.Elem())
	}
	return t.String()
}

// comp is one scalar SMT component of a flattened value.
type comp struct {
	Path string // "" for scalars, "#arr", "#off", "#len", "#cap", "#tag", "#pref", "#pint"
	S    Sort
}

type unsupported struct{ msg string }

func (u unsupported) Error() string { return u.msg }

func unsup(format string, a ...interface{}) { panic(unsupported{fmt.Sprintf(format, a...)}) }

// sortOfScalar returns the SMT sort of a scalar Go type under the given arith mode.
func (ar *arith) sortOfScalar(t types.Type) (Sort, bool) {
	switch x := t.Underlying().(type) {
	case *types.Basic:
		if ii, ok := basicIntInfo(x); ok {
			return ar.intSort(ii), true
		}
		if x.Info()&types.IsBoolean != 0 {
			return SBool, true
		}
		if x.Info()&types.IsFloat != 0 {
			return SReal, true
		}
		if x.Info()&types.IsString != 0 {
			return SStr, true
		}
		if x.Kind() == types.UnsafePointer {
			return SRef, true
		}
		if x.Kind() == types.UntypedNil {
			return SRef, true
		}
	case *types.Pointer, *types.Map, *types.Chan:
		return SRef, true
	case *types.Signature:
		return SInt, true
	case *types.TypeParam:
		// opaque generic value: modelled as an interface-like reference
		return SRef, true
	}
	return "", false
}

// comps flattens a (non-struct, non-array) type into scalar components.
func (ar *arith) comps(t types.Type) []comp {
	if s, ok := ar.sortOfScalar(t); ok {
		return []comp{{"", s}}
	}
	switch t.Underlying().(type) {
	case *types.Slice:
		return []comp{{"#arr", SRef}, {"#off", ar.idxSort()}, {"#len", ar.idxSort()}, {"#cap", ar.idxSort()}}
	case *types.Interface:
		return []comp{{"#tag", SInt}, {"#pref", SRef}, {"#pint", SInt}}
	}
	return nil
}

func isAggregate(t types.Type) bool {
	switch t.Underlying().(type) {
	case *types.Struct, *types.Array:
		return true
	}
	return false
}
