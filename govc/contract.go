package main

// Parsing of the Gobra-style //@ contract files.

import (
	"strconv"
	"fmt"
	"go/ast"
	"go/parser"
	"os"
	"path/filepath"
	"regexp"
	"sort"
	"strings"
)

type Clause struct {
	Label string
	Text  string
	Expr  ast.Expr
	Line  int
	File  string
}

type AtClause struct {
	Anchor string // "call:<name>#k" or "store:<field>#k"
	Text   string
}

type FuncContract struct {
	Key       string // "(*baseFlowController).getWindowUpdate" or "Len"
	RecvName  string
	Pkg       string // package path
	Requires  []*Clause
	Ensures   []*Clause
	Elems     []*Clause // iterator-returning functions: facts about every element the iterator yields (arg0, arg1)
	Modifies  []*Clause
	ModGiven  bool
	Updates   []*Clause // ghost updates "g = e" executed at exit
	Lets      []*LetDef
	Arith     string // "int" | "bv"
	Inline    bool
	Trusted   string
	Bounded   string
	PanicsWhen []*Clause
	Nilable   map[string]bool
	CheckNil  bool
	Yields    bool
	Props     []string
	Unclaimed map[string]string // obligation suffix -> reason
	Pure      bool              // no heap effects at all (modifies nothing) and result is a function of args: used for extern/iface
	Fresh     bool              // result is freshly allocated
	Loops     map[int]*LoopContract
	Line      int
	File      string
	IsIface   bool
	IsExtern  bool
	MaxPaths  int
	Opts      map[string]string
}

type FieldBound struct {
	Type, Field string
	Max         int64
}

type LetDef struct {
	Name string
	Expr ast.Expr
	Text string
}

// loop contracts of range-over-func loops ("#rf<k>") are stored under ordinal rangeFuncOrdBase + k
const rangeFuncOrdBase = 1000

type LoopContract struct {
	Ordinal    int
	BodyEnsures []*Clause // checked at every back edge: facts about one iteration (may use calledinloop)
	Invariants []*Clause
	Decreases  *Clause
	Modifies   []*Clause
	ModGiven   bool
	Line       int
}

type SpecFunc struct {
	Name     string
	RecvName string // for preds with receiver
	RecvType string
	Params   []string
	ParamTypes []string
	Body     ast.Expr
	Text     string
	Pkg      string
}

type GhostField struct {
	Owner string // struct type name (unqualified, in package)
	Name  string
	Type  string // "set[T]" | "int" | "bool" | "map[K]V" | "seq[T]"
	Pkg   string
}

type Lemma struct {
	Name    string
	Pkg     string
	Props   []string
	Arith   string
	Vars    []string // "name type"
	Assumes []*Clause
	Shows   []*Clause
	Calls   []*Clause // "r = f(args)" / "call recv.m(args)" steps
	Items   []LemmaItem // assume/step/show in source order
	Line    int
	File    string
}

type PkgContracts struct {
	Pkg    string // import path
	Dir    string
	Consts map[string]ast.Expr
	Specs  map[string]*SpecFunc // key: name or "T.name" for receiver preds
	Ghosts []*GhostField
	Funcs  map[string]*FuncContract
	Ifaces map[string]*FuncContract // key "(pkg.Iface).Method"
	Externs map[string]*FuncContract
	Lemmas []*Lemma
	Order  []string
	Devirt map[string]string // interface type name -> concrete receiver type (e.g. "*connectionFlowController")
	// FieldBounds: type invariants of the simplest kind, "<Type>.<field> <= N" for an unexported integer field of a
	// struct type of this package. Assumed wherever a value of the type is met OUTSIDE the package (nobody else can
	// write the field), proved for every value a function of the package under contract returns.
	FieldBounds []FieldBound
}

type ContractDB struct {
	Pkgs map[string]*PkgContracts // by import path
	// global extern & iface contracts visible from every package
	Externs map[string]*FuncContract
	Ifaces  map[string]*FuncContract
}

var topKeywords = map[string]bool{"fieldbound": true, "devirt": true, "const": true, "spec": true, "pred": true, "ghost": true, "func": true, "loop": true, "iface": true, "extern": true, "lemma": true}
var clauseKeywords = map[string]bool{"requires": true, "ensures": true, "modifies": true, "invariant": true, "bodyensures": true, "decreases": true,
	"arith": true, "inline": true, "panics": true, "nilable": true, "check": true, "trusted": true, "bounded": true, "updates": true,
	"yields": true, "unclaimed": true, "props": true, "let": true, "pure": true, "fresh": true, "maxpaths": true, "opt": true,
	"var": true, "assume": true, "show": true, "step": true, "elem": true}

var resultDotRe = regexp.MustCompile(`\bresult\.(\d+)\b`)
var labelRe = regexp.MustCompile(`^\[([A-Za-z0-9_\-\.:]+)\]\s*`)

func preprocessExpr(s string) string {
	s = resultDotRe.ReplaceAllString(s, "result$1")
	// set/ghost membership "x in S" -> in(x, S) is written functionally already.
	return s
}

func parseExprText(s string) (ast.Expr, error) {
	s = preprocessExpr(strings.TrimSpace(s))
	e, err := parser.ParseExpr(s)
	if err != nil {
		return nil, fmt.Errorf("contract expression %q: %v", s, err)
	}
	return e, nil
}

type LemmaItem struct {
	Kind string // assume | step | show
	Cl   *Clause
}

type rawItem struct {
	kind  string
	head  string
	line  int
	items []rawClause
}
type rawClause struct {
	kw   string
	text string
	line int
}

// parseContractFile reads one verif_contracts.go file.
func parseContractFile(path, pkgPath string, pc *PkgContracts) error {
	data, err := os.ReadFile(path)
	if err != nil {
		return err
	}
	var items []*rawItem
	var cur *rawItem
	for i, ln := range strings.Split(string(data), "\n") {
		t := strings.TrimSpace(ln)
		if !strings.HasPrefix(t, "//@") {
			continue
		}
		t = strings.TrimSpace(t[3:])
		if t == "" {
			continue
		}
		// strip trailing " // comment"
		if k := strings.Index(t, " //"); k >= 0 {
			t = strings.TrimSpace(t[:k])
		}
		f := strings.Fields(t)
		kw := f[0]
		rest := strings.TrimSpace(t[len(kw):])
		if topKeywords[kw] {
			cur = &rawItem{kind: kw, head: rest, line: i + 1}
			items = append(items, cur)
			continue
		}
		if cur == nil {
			return fmt.Errorf("%s:%d: clause outside item", path, i+1)
		}
		if clauseKeywords[kw] {
			cur.items = append(cur.items, rawClause{kw, rest, i + 1})
			continue
		}
		// continuation
		if len(cur.items) == 0 {
			cur.head += " " + t
		} else {
			cur.items[len(cur.items)-1].text += " " + t
		}
	}
	for _, it := range items {
		if err := pc.addItem(it, path); err != nil {
			return fmt.Errorf("%s:%d: %v", path, it.line, err)
		}
	}
	return nil
}

var funcHeadRe = regexp.MustCompile(`^(?:\(\s*(\w+)\s+(\*?)([\w\./\[\]\$,]+)\s*\)\s*)?([\w\./\$#]+)\s*$`)
var loopHeadRe = regexp.MustCompile(`^(.*?)\s*#(rf)?(\d+)\s*$`)
var specHeadRe = regexp.MustCompile(`^(?:\(\s*(\w+)\s+\*?([\w\.]+)(?:\[[\w, ]*\])?\s*\)\s*)?(\w+)\s*\(([^)]*)\)\s*([\w\.\[\]\*]*)\s*=\s*(.*)$`)

func funcKey(star, recvType, name string) string {
	if recvType == "" {
		return name
	}
	if star == "*" {
		return "(*" + recvType + ")." + name
	}
	return "(" + recvType + ")." + name
}

func (pc *PkgContracts) addItem(it *rawItem, path string) error {
	switch it.kind {
	case "fieldbound":
		ff := strings.Fields(it.head)
		if len(ff) != 3 || ff[1] != "<=" || !strings.Contains(ff[0], ".") {
			return fmt.Errorf("fieldbound <Type>.<field> <= <N>")
		}
		n, err := strconv.ParseInt(ff[2], 10, 64)
		if err != nil {
			return err
		}
		i := strings.LastIndex(ff[0], ".")
		pc.FieldBounds = append(pc.FieldBounds, FieldBound{Type: ff[0][:i], Field: ff[0][i+1:], Max: n})
	case "devirt":
		ff := strings.Fields(it.head)
		if len(ff) != 2 {
			return fmt.Errorf("devirt <iface> <*concrete>")
		}
		pc.Devirt[ff[0]] = ff[1]
	case "const":
		parts := strings.SplitN(it.head, "=", 2)
		if len(parts) != 2 {
			return fmt.Errorf("bad const")
		}
		e, err := parseExprText(parts[1])
		if err != nil {
			return err
		}
		pc.Consts[strings.TrimSpace(parts[0])] = e
	case "spec", "pred":
		m := specHeadRe.FindStringSubmatch(it.head)
		if m == nil {
			return fmt.Errorf("bad spec head %q", it.head)
		}
		sf := &SpecFunc{Name: m[3], RecvName: m[1], RecvType: m[2], Text: m[6], Pkg: pc.Pkg}
		for _, p := range strings.Split(m[4], ",") {
			p = strings.TrimSpace(p)
			if p == "" {
				continue
			}
			ff := strings.Fields(p)
			sf.Params = append(sf.Params, ff[0])
			if len(ff) > 1 {
				sf.ParamTypes = append(sf.ParamTypes, ff[1])
			} else {
				sf.ParamTypes = append(sf.ParamTypes, "")
			}
		}
		e, err := parseExprText(m[6])
		if err != nil {
			return err
		}
		sf.Body = e
		key := sf.Name
		if sf.RecvType != "" {
			key = sf.RecvType + "." + sf.Name
		}
		pc.Specs[key] = sf
	case "ghost":
		m := regexp.MustCompile(`^\(\s*\w+\s+\*?([\w\.]+)\s*\)\s*(\w+)\s+(.+)$`).FindStringSubmatch(it.head)
		if m == nil {
			return fmt.Errorf("bad ghost head %q", it.head)
		}
		pc.Ghosts = append(pc.Ghosts, &GhostField{Owner: m[1], Name: m[2], Type: strings.TrimSpace(m[3]), Pkg: pc.Pkg})
	case "func", "iface", "extern":
		m := funcHeadRe.FindStringSubmatch(it.head)
		if m == nil {
			return fmt.Errorf("bad func head %q", it.head)
		}
		fc := &FuncContract{Key: funcKey(m[2], m[3], m[4]), RecvName: m[1], Pkg: pc.Pkg, Line: it.line, File: path,
			Nilable: map[string]bool{}, Unclaimed: map[string]string{}, Loops: map[int]*LoopContract{}, Opts: map[string]string{}}
		if err := fc.addClauses(it.items, path); err != nil {
			return err
		}
		switch it.kind {
		case "func":
			if old, ok := pc.Funcs[fc.Key]; ok {
				if len(old.Requires)+len(old.Ensures)+len(old.Modifies) > 0 || old.Trusted != "" || old.ModGiven {
					// a second contract for the same function would silently replace the first (and change what its callers assume)
					return fmt.Errorf("%s:%d: second contract for %s (first at line %d); use a #impl key for a body-only contract", path, it.line, fc.Key, old.Line)
				}
				// merge loops declared earlier
				for k, v := range old.Loops {
					fc.Loops[k] = v
				}
			}
			pc.Funcs[fc.Key] = fc
			pc.Order = append(pc.Order, fc.Key)
		case "iface":
			fc.IsIface = true
			pc.Ifaces[fc.Key] = fc
		case "extern":
			fc.IsExtern = true
			pc.Externs[fc.Key] = fc
		}
	case "loop":
		m := loopHeadRe.FindStringSubmatch(it.head)
		if m == nil {
			return fmt.Errorf("bad loop head %q", it.head)
		}
		fm := funcHeadRe.FindStringSubmatch(strings.TrimSpace(m[1]))
		if fm == nil {
			return fmt.Errorf("bad loop func head %q", m[1])
		}
		key := funcKey(fm[2], fm[3], fm[4])
		var ord int
		fmt.Sscanf(m[3], "%d", &ord)
		if m[2] == "rf" {
			// "#rf<k>": the range-over-func loop whose body go/ssa lowers to the function literal F$<k>
			ord += rangeFuncOrdBase
		}
		lc := &LoopContract{Ordinal: ord, Line: it.line}
		for _, c := range it.items {
			var cl *Clause
			if c.kw == "invariant" || c.kw == "decreases" || c.kw == "bodyensures" {
				var err error
				cl, err = mkClause(c, path)
				if err != nil {
					return err
				}
			}
			switch c.kw {
			case "invariant":
				lc.Invariants = append(lc.Invariants, cl)
			case "bodyensures":
				lc.BodyEnsures = append(lc.BodyEnsures, cl)
			case "decreases":
				lc.Decreases = cl
			case "modifies":
				lc.ModGiven = true
				if strings.TrimSpace(c.text) != "nothing" {
					cls, err := splitModifies(c, path)
					if err != nil {
						return err
					}
					lc.Modifies = append(lc.Modifies, cls...)
				}
			default:
				return fmt.Errorf("bad loop clause %s", c.kw)
			}
		}
		fc, ok := pc.Funcs[key]
		if !ok {
			fc = &FuncContract{Key: key, RecvName: fm[1], Pkg: pc.Pkg, Line: it.line, File: path,
				Nilable: map[string]bool{}, Unclaimed: map[string]string{}, Loops: map[int]*LoopContract{}, Opts: map[string]string{}}
			pc.Funcs[key] = fc
			pc.Order = append(pc.Order, key)
		}
		fc.Loops[ord] = lc
	case "lemma":
		lm := &Lemma{Name: strings.TrimSpace(it.head), Pkg: pc.Pkg, Line: it.line, File: path}
		for _, c := range it.items {
			switch c.kw {
			case "props":
				lm.Props = strings.Fields(c.text)
			case "arith":
				lm.Arith = strings.TrimSpace(c.text)
			case "var":
				lm.Vars = append(lm.Vars, strings.TrimSpace(c.text))
			case "assume", "requires":
				cl, err := mkClause(c, path)
				if err != nil {
					return err
				}
				lm.Assumes = append(lm.Assumes, cl)
				lm.Items = append(lm.Items, LemmaItem{"assume", cl})
			case "show", "ensures":
				cl, err := mkClause(c, path)
				if err != nil {
					return err
				}
				lm.Shows = append(lm.Shows, cl)
				lm.Items = append(lm.Items, LemmaItem{"show", cl})
			case "step":
				scl := &Clause{Text: strings.TrimSpace(c.text), Line: c.line, File: path}
				lm.Calls = append(lm.Calls, scl)
				lm.Items = append(lm.Items, LemmaItem{"step", scl})
			default:
				return fmt.Errorf("bad lemma clause %s", c.kw)
			}
		}
		pc.Lemmas = append(pc.Lemmas, lm)
	}
	return nil
}

func mkClause(c rawClause, path string) (*Clause, error) {
	text := strings.TrimSpace(c.text)
	label := ""
	if m := labelRe.FindStringSubmatch(text); m != nil {
		label = m[1]
		text = text[len(m[0]):]
	}
	e, err := parseExprText(text)
	if err != nil {
		return nil, fmt.Errorf("line %d: %v", c.line, err)
	}
	return &Clause{Label: label, Text: text, Expr: e, Line: c.line, File: path}, nil
}

// splitModifies splits "a.b, c.d[*], heap(T.f)" at top-level commas.
func splitModifies(c rawClause, path string) ([]*Clause, error) {
	var out []*Clause
	depth := 0
	start := 0
	text := c.text
	flush := func(end int) error {
		s := strings.TrimSpace(text[start:end])
		if s == "" {
			return nil
		}
		s2 := strings.ReplaceAll(s, "[*]", "[_all]")
		s2 = strings.ReplaceAll(s2, ".*", "._all")
		e, err := parseExprText(s2)
		if err != nil {
			return err
		}
		out = append(out, &Clause{Text: s, Expr: e, Line: c.line, File: path})
		return nil
	}
	for i, ch := range text {
		switch ch {
		case '(', '[':
			depth++
		case ')', ']':
			depth--
		case ',':
			if depth == 0 {
				if err := flush(i); err != nil {
					return nil, err
				}
				start = i + 1
			}
		}
	}
	if err := flush(len(text)); err != nil {
		return nil, err
	}
	return out, nil
}

func (fc *FuncContract) addClauses(items []rawClause, path string) error {
	for _, c := range items {
		switch c.kw {
		case "requires", "ensures", "panics", "updates", "elem":
			cc := c
			if c.kw == "panics" {
				cc.text = strings.TrimSpace(strings.TrimPrefix(strings.TrimSpace(c.text), "when"))
			}
			if c.kw == "updates" {
				// "g = e": keep text, parse later
				fc.Updates = append(fc.Updates, &Clause{Text: strings.TrimSpace(c.text), Line: c.line, File: path})
				continue
			}
			cl, err := mkClause(cc, path)
			if err != nil {
				return err
			}
			switch c.kw {
			case "requires":
				fc.Requires = append(fc.Requires, cl)
			case "ensures":
				fc.Ensures = append(fc.Ensures, cl)
			case "panics":
				fc.PanicsWhen = append(fc.PanicsWhen, cl)
			case "elem":
				fc.Elems = append(fc.Elems, cl)
			}
		case "modifies":
			fc.ModGiven = true
			if strings.TrimSpace(c.text) == "nothing" {
				continue
			}
			cls, err := splitModifies(c, path)
			if err != nil {
				return err
			}
			fc.Modifies = append(fc.Modifies, cls...)
		case "let":
			parts := strings.SplitN(c.text, "=", 2)
			if len(parts) != 2 {
				return fmt.Errorf("bad let")
			}
			e, err := parseExprText(parts[1])
			if err != nil {
				return err
			}
			fc.Lets = append(fc.Lets, &LetDef{Name: strings.TrimSpace(parts[0]), Expr: e, Text: parts[1]})
		case "arith":
			fc.Arith = strings.TrimSpace(c.text)
		case "inline":
			fc.Inline = true
		case "trusted":
			fc.Trusted = strings.TrimSpace(c.text)
			if fc.Trusted == "" {
				fc.Trusted = "trusted"
			}
		case "bounded":
			fc.Bounded = strings.TrimSpace(c.text)
		case "nilable":
			for _, n := range strings.Fields(strings.ReplaceAll(c.text, ",", " ")) {
				fc.Nilable[n] = true
			}
		case "check":
			if strings.TrimSpace(c.text) == "nil" {
				fc.CheckNil = true
			}
		case "yields":
			fc.Yields = true
		case "pure":
			fc.Pure = true
		case "fresh":
			fc.Fresh = true
		case "props":
			fc.Props = append(fc.Props, strings.Fields(strings.ReplaceAll(c.text, ",", " "))...)
		case "unclaimed":
			ff := strings.Fields(c.text)
			if len(ff) > 0 {
				fc.Unclaimed[ff[0]] = strings.Join(ff[1:], " ")
			}
		case "maxpaths":
			fmt.Sscanf(c.text, "%d", &fc.MaxPaths)
		case "opt":
			ff := strings.Fields(c.text)
			if len(ff) >= 1 {
				fc.Opts[ff[0]] = strings.Join(ff[1:], " ")
			}
		default:
			return fmt.Errorf("line %d: bad clause %q for func", c.line, c.kw)
		}
	}
	return nil
}

func newPkgContracts(pkg, dir string) *PkgContracts {
	return &PkgContracts{Pkg: pkg, Dir: dir, Consts: map[string]ast.Expr{}, Specs: map[string]*SpecFunc{},
		Funcs: map[string]*FuncContract{}, Ifaces: map[string]*FuncContract{}, Externs: map[string]*FuncContract{}, Devirt: map[string]string{}}
}

// loadContracts reads every <root>/<rel>/verif_contracts*.go; rel maps to import path modPath/rel.
func loadContracts(root, modPath string) (*ContractDB, error) {
	db := &ContractDB{Pkgs: map[string]*PkgContracts{}, Externs: map[string]*FuncContract{}, Ifaces: map[string]*FuncContract{}}
	var files []string
	filepath.Walk(root, func(p string, info os.FileInfo, err error) error {
		if err == nil && !info.IsDir() && strings.HasPrefix(filepath.Base(p), "verif_contracts") && strings.HasSuffix(p, ".go") {
			files = append(files, p)
		}
		return nil
	})
	sort.Strings(files)
	for _, f := range files {
		rel, _ := filepath.Rel(root, filepath.Dir(f))
		pkg := modPath
		if rel != "." {
			pkg = modPath + "/" + filepath.ToSlash(rel)
		}
		pc := db.Pkgs[pkg]
		if pc == nil {
			pc = newPkgContracts(pkg, filepath.Dir(f))
			db.Pkgs[pkg] = pc
		}
		if err := parseContractFile(f, pkg, pc); err != nil {
			return nil, err
		}
	}
	// extern and interface contracts are global: one declaration each (a second one elsewhere would make the verdict depend
	// on which is met first)
	var pkgPaths []string
	for p := range db.Pkgs {
		pkgPaths = append(pkgPaths, p)
	}
	sort.Strings(pkgPaths)
	for _, p := range pkgPaths {
		pc := db.Pkgs[p]
		for k, v := range pc.Externs {
			if prev, dup := db.Externs[k]; dup {
				return nil, fmt.Errorf("extern contract %s declared twice (%s:%d and %s:%d)", k, prev.File, prev.Line, v.File, v.Line)
			}
			db.Externs[k] = v
		}
		for k, v := range pc.Ifaces {
			if prev, dup := db.Ifaces[k]; dup {
				return nil, fmt.Errorf("interface contract %s declared twice (%s:%d and %s:%d)", k, prev.File, prev.Line, v.File, v.Line)
			}
			db.Ifaces[k] = v
		}
	}
	return db, nil
}
