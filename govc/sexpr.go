package main

import "strings"

// Minimal s-expression utilities used to skolemise universally quantified goals.

// splitSexpr splits the children of "(a b (c d) e)" -> ["a","b","(c d)","e"]; returns nil if s is an atom.
func splitSexpr(s string) []string {
	s = strings.TrimSpace(s)
	if len(s) < 2 || s[0] != '(' || s[len(s)-1] != ')' {
		return nil
	}
	body := s[1 : len(s)-1]
	var out []string
	d := 0
	start := -1
	inBar := false
	for i := 0; i < len(body); i++ {
		ch := body[i]
		if ch == '|' {
			inBar = !inBar
			if start < 0 {
				start = i
			}
			continue
		}
		if inBar {
			continue
		}
		switch ch {
		case '(':
			if d == 0 && start < 0 {
				start = i
			}
			d++
		case ')':
			d--
			if d == 0 && start >= 0 && body[start] == '(' {
				out = append(out, body[start:i+1])
				start = -1
			}
		case ' ', '\n', '\t':
			if d == 0 && start >= 0 {
				out = append(out, body[start:i])
				start = -1
			}
		default:
			if d == 0 && start < 0 {
				start = i
			}
		}
	}
	if start >= 0 {
		out = append(out, body[start:])
	}
	return out
}

// skolemize removes universal quantifiers in positive positions of goal; returns new goal and declarations.
func skolemize(goal string) (string, []string) {
	var decls []string
	var sk func(t string) string
	sk = func(t string) string {
		ch := splitSexpr(t)
		if len(ch) == 0 {
			return t
		}
		switch ch[0] {
		case "forall":
			if len(ch) != 3 {
				return t
			}
			for _, b := range splitSexpr(ch[1]) {
				bs := splitSexpr(b)
				if len(bs) != 2 {
					return t
				}
				decls = append(decls, "(declare-const "+bs[0]+" "+bs[1]+")")
			}
			return sk(ch[2])
		case "!":
			if len(ch) >= 2 {
				return sk(ch[1])
			}
		case "=>":
			if len(ch) == 3 {
				return "(=> " + ch[1] + " " + sk(ch[2]) + ")"
			}
		case "and":
			parts := []string{"and"}
			for _, c := range ch[1:] {
				parts = append(parts, sk(c))
			}
			return "(" + strings.Join(parts, " ") + ")"
		}
		return t
	}
	g := sk(goal)
	return g, decls
}
