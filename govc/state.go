package main

import (
	"go/token"
	"regexp"
	"fmt"
	"go/types"
	"sort"
	"strings"

	"golang.org/x/tools/go/ssa"
)

// Obligation: one SMT query (path-specific instance of a named obligation).
type Obligation struct {
	Func   string // package-relative function name
	Kind   string // post, pre, inv-init, inv-step, dec, frame, safe:index, ...
	Label  string // label / site
	Pos    string
	Goal   string // human readable
	Script string // full SMT script (without preamble)
	Trivial bool  // goal is literally true
	PathID int
	Reach  bool
	Fields []fieldVar // scalar locations reachable from the parameters (entry values), for replay
	Vars   []modelVar // terms whose model values are interesting for replay
	Skolems []string  // integer skolem constants of the negated goal (candidate map keys for replay)
	Hints  [][]string // staged size bounds used only when a counterexample model is fetched (see Solver.solveH)
	// obligations raised at the same program point on the same path (all postconditions and frame conditions of one
	// return) are first tried as ONE query: prefix ∧ (¬g1 ∨ … ∨ ¬gn); only if that is not unsat are they solved one by one
	Batch       string
	BatchPrefix string
	NegDecls    []string
	NegTerm     string
}

func (o *Obligation) Name() string {
	n := o.Func + "/" + o.Kind
	if o.Label != "" {
		n += ":" + o.Label
	}
	return n
}

type modelVar struct {
	Name string // human name, e.g. "c.bytesSent" or "offset"
	Term string
}

// Frame: activation record.
type Frame struct {
	fn     *ssa.Function
	regs   map[ssa.Value]Val
	block  *ssa.BasicBlock
	prev   *ssa.BasicBlock
	idx    int
	defers []*ssa.Defer
	deferArgs [][]Val
	locals map[*ssa.Alloc]*localCell
	src    map[string]Val // source-level names
	retTo  *ssa.Call      // call instruction in caller (nil for top)
	retDefer bool
	result Val
	loops  map[*ssa.BasicBlock]*loopSnap // loop heads active on this path
	fi     *funcInfo
}

type loopSnap struct {
	heap map[string]string
	dec  string
	allocBase string
	mods []modEntry
	callLogLen int // length of the call log when the loop head was (last) entered on this path
	src map[string]Val // source-level variables at the start of the iteration (for prev(...) in bodyensures)
}

type State struct {
	cmds   []string
	heap   map[string]string // heap name -> current term (a declared constant)
	frames []*Frame
	allocBase string
	allocCnt  int
	entryHeap map[string]string
	pathID    int
	havocAllSeen bool // a callee with "modifies everything" was called on this path
	privates     []privateObj // local aggregates of this path that no callee can reach (see allocIsPrivate)
	callHeaps    map[string][]map[string]string // heap versions right after the calls named in aftercall(...) clauses
	calllog   []string
	callExtra map[string][]string // calls made inside contract-applied callees: symbolic counts per callee name
	touched   map[string]bool // heap names written on this path (incl. via havoc)
	dead      bool
	lastRes   map[string]Val // callee name -> result of its most recent call on this path
	callArgs  map[string][][]Val // callee name -> arguments (receiver first) of each direct call on this path, in order
	refFacts  map[string]bool // ref terms already known to be allocated (rootid < alloc pointer)
	heapAlloc map[string]string // heap name -> allocation pointer when its current version was created (default alloc0)
}

func (s *State) clone() *State {
	n := &State{allocBase: s.allocBase, allocCnt: s.allocCnt, entryHeap: s.entryHeap, pathID: s.pathID}
	n.cmds = make([]string, len(s.cmds), len(s.cmds)+64)
	copy(n.cmds, s.cmds)
	n.heap = make(map[string]string, len(s.heap))
	for k, v := range s.heap {
		n.heap[k] = v
	}
	n.touched = make(map[string]bool, len(s.touched))
	for k, v := range s.touched {
		n.touched[k] = v
	}
	n.havocAllSeen = s.havocAllSeen
	n.privates = append([]privateObj(nil), s.privates...)
	if s.callHeaps != nil {
		n.callHeaps = make(map[string][]map[string]string, len(s.callHeaps))
		for k, v := range s.callHeaps {
			n.callHeaps[k] = append([]map[string]string(nil), v...)
		}
	}
	n.calllog = append([]string(nil), s.calllog...)
	if s.callExtra != nil {
		n.callExtra = map[string][]string{}
		for k, v := range s.callExtra {
			n.callExtra[k] = append([]string(nil), v...)
		}
	}
	if s.heapAlloc != nil {
		n.heapAlloc = make(map[string]string, len(s.heapAlloc))
		for k, v := range s.heapAlloc {
			n.heapAlloc[k] = v
		}
	}
	if s.refFacts != nil {
		n.refFacts = make(map[string]bool, len(s.refFacts))
		for k, v := range s.refFacts {
			n.refFacts[k] = v
		}
	}
	if s.callArgs != nil {
		n.callArgs = make(map[string][][]Val, len(s.callArgs))
		for k, v := range s.callArgs {
			n.callArgs[k] = append([][]Val(nil), v...)
		}
	}
	if s.lastRes != nil {
		n.lastRes = make(map[string]Val, len(s.lastRes))
		for k, v := range s.lastRes {
			n.lastRes[k] = v
		}
	}
	for _, f := range s.frames {
		nf := *f
		nf.regs = make(map[ssa.Value]Val, len(f.regs))
		for k, v := range f.regs {
			nf.regs[k] = v
		}
		nf.locals = make(map[*ssa.Alloc]*localCell, len(f.locals))
		// local cells are shared by pointer in LocV values; clone them and remap.
		remap := map[*localCell]*localCell{}
		for k, v := range f.locals {
			c := &localCell{id: v.id, val: v.val}
			nf.locals[k] = c
			remap[v] = c
		}
		if len(remap) > 0 {
			for k, v := range nf.regs {
				nf.regs[k] = remapLocals(v, remap)
			}
		}
		nf.src = make(map[string]Val, len(f.src))
		for k, v := range f.src {
			nf.src[k] = remapLocals(v, remap)
		}
		nf.defers = append([]*ssa.Defer(nil), f.defers...)
		nf.deferArgs = append([][]Val(nil), f.deferArgs...)
		nf.loops = make(map[*ssa.BasicBlock]*loopSnap, len(f.loops))
		for k, v := range f.loops {
			nf.loops[k] = v
		}
		n.frames = append(n.frames, &nf)
	}
	return n
}

func remapLocals(v Val, remap map[*localCell]*localCell) Val {
	if len(remap) == 0 {
		return v
	}
	switch x := v.(type) {
	case LocV:
		if x.Kind == LocLocal {
			if c, ok := remap[x.Local]; ok {
				x.Local = c
			}
		}
		return x
	case ClosureV:
		nb := make([]Val, len(x.Bindings))
		for i, b := range x.Bindings {
			nb[i] = remapLocals(b, remap)
		}
		x.Bindings = nb
		return x
	case StructV:
		nf := make([]Val, len(x.F))
		for i, b := range x.F {
			nf[i] = remapLocals(b, remap)
		}
		x.F = nf
		return x
	case TupleV:
		nf := make([]Val, len(x.E))
		for i, b := range x.E {
			if b != nil {
				nf[i] = remapLocals(b, remap)
			}
		}
		x.E = nf
		return x
	}
	return v
}

func (s *State) top() *Frame { return s.frames[len(s.frames)-1] }

// ---------- verification context for one function ----------

type Ctx struct {
	// opt startloop N: execution starts at the header of natural loop N from a state that is arbitrary except for the
	// function's requires and the loop's invariants (values defined before the loop are created fresh on first use)
	trivialNames map[string]bool
	afterCallNames map[string]bool // callees named in aftercall(...) clauses of the contract under verification
	startLoop    *ssa.BasicBlock
	startLoopEntered bool
	lazyRegs     bool
	dbgLast      int
	extraContractVars map[string]Val
	extraMods    []modEntry
	havocAllDeclared bool // the havocAll in progress comes from an explicit "modifies everything" clause
	curBatch     string
	batchSeq     int
	batchMembers []*Obligation
	batchGoalIdx []int
	eng   *Engine
	ar    *arith
	fn    *ssa.Function
	fc    *FuncContract
	pc    *PkgContracts
	name  string // package-relative function name
	obls  []*Obligation
	nfresh int
	npaths int
	maxPaths int
	heapSorts map[string]string // heap name -> SMT sort string
	decls  []string // global declarations for this function (uninterpreted funcs etc.)
	declSet map[string]bool
	siteCount map[string]int
	undecided []string
	assumptions map[string]bool
	strLits map[string]string
	checkNil bool
	pathsDone int
	curInlineDepth int
	lastCallee string
	siteIDs map[string]string
	notes map[string]bool
	modelVars []modelVar
	entryEnvVars map[string]Val
	entryCmds int
	nextPathID int
}

func (c *Ctx) fresh(prefix string) string {
	c.nfresh++
	return fmt.Sprintf("%s!%d", sanitize(prefix), c.nfresh)
}

func sanitize(s string) string {
	var sb strings.Builder
	for _, r := range s {
		switch {
		case r >= 'a' && r <= 'z', r >= 'A' && r <= 'Z', r >= '0' && r <= '9', r == '_', r == '.', r == '$':
			sb.WriteRune(r)
		default:
			sb.WriteRune('_')
		}
	}
	return sb.String()
}

func q(name string) string { return "|" + strings.ReplaceAll(name, "|", "_") + "|" }

func (c *Ctx) declGlobal(key, decl string) {
	if c.declSet[key] {
		return
	}
	c.declSet[key] = true
	c.decls = append(c.decls, decl)
}

var qvarRe = regexp.MustCompile(`[A-Za-z_][A-Za-z_0-9.]*!q[0-9]+`)

func (c *Ctx) assume(s *State, t string) {
	if t == "" || t == "true" {
		return
	}
	// side facts produced while evaluating the body of a quantifier mention its bound variable free: they cannot be
	// stated outside the quantifier and are dropped (dropping an assumption is always sound)
	if strings.Contains(t, "!q") {
		for _, v := range qvarRe.FindAllString(t, -1) {
			if !strings.Contains(t, "(("+v+" ") && !strings.Contains(t, " ("+v+" ") {
				return
			}
		}
	}
	s.cmds = append(s.cmds, "(assert "+t+")")
}

func (c *Ctx) declConst(s *State, name string, sort string) {
	s.cmds = append(s.cmds, fmt.Sprintf("(declare-const %s %s)", name, sort))
}

// freshConst declares a fresh constant of the given sort and returns its name.
func (c *Ctx) freshConst(s *State, prefix string, sort Sort) string {
	n := c.fresh(prefix)
	c.declConst(s, n, string(sort))
	return n
}

// bind names a term with a fresh constant (keeps terms small, gives models per SSA value).
func (c *Ctx) bind(s *State, prefix string, sort Sort, term string) string {
	if len(term) < 24 && !strings.Contains(term, " ") {
		return term
	}
	n := c.freshConst(s, prefix, sort)
	c.assume(s, fmt.Sprintf("(= %s %s)", n, term))
	return n
}

// ---------- heap access ----------

func (c *Ctx) heapTerm(s *State, name, sort string) string {
	if t, ok := s.heap[name]; ok {
		return t
	}
	// base version: a global constant (same in every state of this function)
	c.heapSorts[name] = sort
	base := q(name + "@0")
	c.declGlobal("heap:"+name, fmt.Sprintf("(declare-const %s %s)", base, sort))
	if s.havocAllSeen {
		// a "modifies everything" call happened earlier on this path: a heap first touched now no longer has its
		// entry contents
		n := q(c.fresh(name))
		c.declConst(s, n, sort)
		s.heap[name] = n
		s.touched[name] = true
		return n
	}
	s.heap[name] = base
	return base
}

func (c *Ctx) entryHeapTerm(name string) string { return q(name + "@0") }

func (c *Ctx) setHeap(s *State, name, sort, term string) {
	c.heapSorts[name] = sort
	n := q(c.fresh(name))
	c.declConst(s, n, sort)
	c.assume(s, fmt.Sprintf("(= %s %s)", n, term))
	s.heap[name] = n
	s.touched[name] = true
	c.noteHeapVersion(s, name)
}

func (c *Ctx) havocHeap(s *State, name string) string {
	sort := c.heapSorts[name]
	n := q(c.fresh(name))
	c.declConst(s, n, sort)
	s.heap[name] = n
	s.touched[name] = true
	c.noteHeapVersion(s, name)
	return n
}

// noteHeapVersion records the allocation pointer at the time the current version of a heap was created: every
// reference stored in that version was allocated before it.
func (c *Ctx) noteHeapVersion(s *State, name string) {
	if s.heapAlloc == nil {
		s.heapAlloc = map[string]string{}
	}
	s.heapAlloc[name] = c.allocTerm(s)
}

// heapBound: upper bound (exclusive) on the allocation ids of references read from the current version of a heap.
func (c *Ctx) heapBound(s *State, heap map[string]string, name string) string {
	if s == nil {
		return "alloc0"
	}
	if heap != nil {
		if _, ok := heap[name]; !ok {
			return "alloc0" // entry version
		}
		return c.allocTerm(s)
	}
	if b, ok := s.heapAlloc[name]; ok {
		return b
	}
	return "alloc0"
}

func fieldHeapName(owner string, field string, path string) string {
	return "F:" + owner + "." + field + path
}

func (c *Ctx) ownerName(t types.Type) string {
	t = types.Unalias(t)
	if p, ok := t.Underlying().(*types.Pointer); ok {
		if _, isNamed := t.(*types.Named); !isNamed {
			t = p.Elem()
		}
	}
	return typeName(t)
}

// loadComp reads one scalar component of a field from the heap.
func (c *Ctx) fieldRead(s *State, heap map[string]string, owner, field, path string, sort Sort, base string) string {
	name := fieldHeapName(owner, field, path)
	hs := fmt.Sprintf("(Array Ref %s)", sort)
	var h string
	if heap != nil {
		if t, ok := heap[name]; ok {
			h = t
		} else {
			// not present in snapshot: unchanged since entry
			c.heapSorts[name] = hs
			c.declGlobal("heap:"+name, fmt.Sprintf("(declare-const %s %s)", q(name+"@0"), hs))
			h = q(name + "@0")
		}
	} else {
		h = c.heapTerm(s, name, hs)
	}
	return fmt.Sprintf("(select %s %s)", h, base)
}

func (c *Ctx) fieldWrite(s *State, owner, field, path string, sort Sort, base, val string) {
	name := fieldHeapName(owner, field, path)
	hs := fmt.Sprintf("(Array Ref %s)", sort)
	h := c.heapTerm(s, name, hs)
	c.setHeap(s, name, hs, fmt.Sprintf("(store %s %s %s)", h, base, val))
}

func elemHeapName(elem types.Type, path string) string { return "E:" + typeName(elem) + path }

func (c *Ctx) elemHeapSort(sort Sort) string {
	return fmt.Sprintf("(Array Ref (Array %s %s))", c.ar.idxSort(), sort)
}

func (c *Ctx) elemRead(s *State, heap map[string]string, elem types.Type, path string, sort Sort, arr, idx string) string {
	name := elemHeapName(elem, path)
	hs := c.elemHeapSort(sort)
	var h string
	if heap != nil {
		if t, ok := heap[name]; ok {
			h = t
		} else {
			c.heapSorts[name] = hs
			c.declGlobal("heap:"+name, fmt.Sprintf("(declare-const %s %s)", q(name+"@0"), hs))
			h = q(name + "@0")
		}
	} else {
		h = c.heapTerm(s, name, hs)
	}
	return fmt.Sprintf("(select (select %s %s) %s)", h, arr, idx)
}

func (c *Ctx) elemWrite(s *State, elem types.Type, path string, sort Sort, arr, idx, val string) {
	name := elemHeapName(elem, path)
	hs := c.elemHeapSort(sort)
	h := c.heapTerm(s, name, hs)
	c.setHeap(s, name, hs, fmt.Sprintf("(store %s %s (store (select %s %s) %s %s))", h, arr, h, arr, idx, val))
}

// snapshot returns a copy of the current heap map.
func (s *State) snapshot() map[string]string {
	m := make(map[string]string, len(s.heap))
	for k, v := range s.heap {
		m[k] = v
	}
	return m
}

func sortedKeys(m map[string]bool) []string {
	var ks []string
	for k := range m {
		ks = append(ks, k)
	}
	sort.Strings(ks)
	return ks
}

// ---------- values ----------

func (c *Ctx) nilRef() string { return "rnil" }

func (c *Ctx) zeroScalar(t types.Type) Scalar {
	sort, ok := c.ar.sortOfScalar(t)
	if !ok {
		unsup("zeroScalar of %s", t)
	}
	switch sort {
	case SBool:
		return Scalar{"false", SBool, t}
	case SReal:
		return Scalar{"0.0", SReal, t}
	case SStr:
		return Scalar{c.strLit(""), SStr, t}
	case SRef:
		return Scalar{"rnil", SRef, t}
	}
	if ii, ok := isIntType(t); ok {
		return Scalar{c.ar.litI(0, ii), sort, t}
	}
	return Scalar{"0", SInt, t} // func values
}

func (c *Ctx) strLit(v string) string {
	if n, ok := c.strLits[v]; ok {
		return n
	}
	n := fmt.Sprintf("strlit!%d", len(c.strLits))
	c.strLits[v] = n
	c.decls = append(c.decls, fmt.Sprintf("(declare-const %s Str) ; %q", n, truncate(v, 40)))
	c.decls = append(c.decls, fmt.Sprintf("(assert (= (strlen %s) %s))", n, c.ar.idx(int64(len(v)))))
	if v == "" {
		// the empty string is the only string of length 0
		c.decls = append(c.decls, fmt.Sprintf("(assert (forall ((s Str)) (! (=> (= (strlen s) %s) (= s %s)) :pattern ((strlen s)))))", c.ar.idx(0), n))
	}
	// distinctness from other literals
	for o, on := range c.strLits {
		if o != v {
			c.decls = append(c.decls, fmt.Sprintf("(assert (not (= %s %s)))", n, on))
		}
	}
	return n
}

func truncate(s string, n int) string {
	if len(s) > n {
		return s[:n] + "..."
	}
	return s
}

func (c *Ctx) zeroVal(s *State, t types.Type) Val {
	switch u := t.Underlying().(type) {
	case *types.Struct:
		sv := StructV{Ty: t}
		for i := 0; i < u.NumFields(); i++ {
			sv.F = append(sv.F, c.zeroVal(s, u.Field(i).Type()))
		}
		return sv
	case *types.Array:
		es, ok := c.ar.sortOfScalar(u.Elem())
		if !ok {
			unsup("array value of non-scalar element type %s", t)
		}
		z := c.zeroScalar(u.Elem())
		zt := z.T
		if zt == "rnil" {
			zt = "(mkobj 0)"
		}
		return ArrayV{Term: fmt.Sprintf("((as const (Array %s %s)) %s)", c.ar.idxSort(), es, zt), Ty: t}
	case *types.Slice:
		z := c.ar.idx(0)
		return SliceV{"rnil", z, z, z, t}
	case *types.Interface:
		return IfaceV{"0", "rnil", c.pintZero(), t}
	case *types.Tuple:
		tv := TupleV{Ty: t}
		for i := 0; i < u.Len(); i++ {
			tv.E = append(tv.E, c.zeroVal(s, u.At(i).Type()))
		}
		return tv
	}
	return c.zeroScalar(t)
}

func (c *Ctx) pintZero() string { return "0" }

// freshVal creates an unconstrained value of type t (with machine-range assumptions).
func (c *Ctx) freshVal(s *State, prefix string, t types.Type) Val {
	switch u := t.Underlying().(type) {
	case *types.Struct:
		sv := StructV{Ty: t}
		for i := 0; i < u.NumFields(); i++ {
			sv.F = append(sv.F, c.freshVal(s, prefix+"."+u.Field(i).Name(), u.Field(i).Type()))
		}
		c.structBoundAssume(s, sv)
		return sv
	case *types.Array:
		es, ok := c.ar.sortOfScalar(u.Elem())
		if !ok {
			unsup("array value of non-scalar element type %s", t)
		}
		n := c.freshConst(s, prefix, Sort(fmt.Sprintf("(Array %s %s)", c.ar.idxSort(), es)))
		return ArrayV{Term: n, Ty: t}
	case *types.Slice:
		arr := c.freshConst(s, prefix+"#arr", SRef)
		off := c.freshConst(s, prefix+"#off", c.ar.idxSort())
		ln := c.freshConst(s, prefix+"#len", c.ar.idxSort())
		cp := c.freshConst(s, prefix+"#cap", c.ar.idxSort())
		sv := SliceV{arr, off, ln, cp, t}
		c.assume(s, c.sliceWF(sv))
		return sv
	case *types.Interface:
		tag := c.freshConst(s, prefix+"#tag", SInt)
		pref := c.freshConst(s, prefix+"#pref", SRef)
		pint := c.freshConst(s, prefix+"#pint", SInt)
		c.assume(s, fmt.Sprintf("(>= %s 0)", tag))
		return IfaceV{tag, pref, pint, t}
	case *types.Tuple:
		tv := TupleV{Ty: t}
		for i := 0; i < u.Len(); i++ {
			tv.E = append(tv.E, c.freshVal(s, fmt.Sprintf("%s.%d", prefix, i), u.At(i).Type()))
		}
		return tv
	}
	sort, ok := c.ar.sortOfScalar(t)
	if !ok {
		unsup("freshVal of %s", t)
	}
	n := c.freshConst(s, prefix, sort)
	if ii, ok := isIntType(t); ok {
		c.assume(s, c.ar.rangeAssume(n, ii))
	}
	if sort == SRef {
		c.assume(s, c.ptrFact(Scalar{n, sort, t}))
	}
	if isStringType(t) {
		// strlen >= 0 is a global axiom
	}
	return Scalar{n, sort, t}
}

// sliceWF: 0 <= off, 0 <= len <= cap
func (c *Ctx) sliceWF(sv SliceV) string {
	if c.ar.bv {
		z := c.ar.idx(0)
		return fmt.Sprintf("(and (bvsle %s %s) (bvsle %s %s) (bvsle %s %s) (bvsle %s %s) (bvsle %s %s))", z, sv.Off, z, sv.Len, sv.Len, sv.Cap,
			sv.Off, c.ar.idx(1<<40), sv.Cap, c.ar.idx(1<<40))
	}
	return fmt.Sprintf("(and (<= 0 %s) (<= 0 %s) (<= %s %s) (<= %s 1099511627776) (<= %s 1099511627776) (=> (= %s rnil) (= %s 0)))", sv.Off, sv.Len, sv.Len, sv.Cap, sv.Off, sv.Cap, sv.Arr, sv.Cap)
}

// fieldBound: the declared upper bound (type invariant) of field fname of the struct type named owner, if the type
// belongs to another package than the function under verification (inside its own package the bound is proved, not
// assumed).
func (c *Ctx) fieldBound(owner, fname string) (int64, bool) {
	for _, pc := range c.eng.db.Pkgs {
		for _, fb := range pc.FieldBounds {
			if shortPkg(pc.Pkg)+"."+fb.Type == owner && fb.Field == fname {
				if c.fn != nil && c.fn.Pkg != nil && c.fn.Pkg.Pkg.Path() == pc.Pkg {
					return 0, false
				}
				c.assumptions["type invariant "+owner+"."+fname+" <= "+fmt.Sprint(fb.Max)+" (unexported field; proved for the values returned by the functions of its package that are under contract)"] = true
				return fb.Max, true
			}
		}
	}
	return 0, false
}

// structBoundAssume assumes the declared field bounds of a struct value.
func (c *Ctx) structBoundAssume(s *State, x StructV) {
	st := structOf(x.Ty)
	if st == nil || namedOf(x.Ty) == nil {
		return
	}
	owner := typeName(x.Ty)
	for i := 0; i < st.NumFields() && i < len(x.F); i++ {
		sc, ok := x.F[i].(Scalar)
		if !ok {
			continue
		}
		if ii, isInt := isIntType(sc.Ty); isInt {
			if max, ok := c.fieldBound(owner, st.Field(i).Name()); ok && !strings.Contains(sc.T, "!q") {
				c.assume(s, c.ar.cmp(token.LEQ, sc.T, c.ar.litI(max, ii), ii))
			}
		}
	}
}

// typeRangeAssume adds machine-range assumptions for every int component of v.
func (c *Ctx) typeRangeAssume(s *State, v Val) {
	if sv, ok := v.(StructV); ok {
		c.structBoundAssume(s, sv)
	}
	switch x := v.(type) {
	case Scalar:
		if ii, ok := isIntType(x.Ty); ok {
			c.assume(s, c.ar.rangeAssume(x.T, ii))
		}
	case SliceV:
		c.assume(s, c.sliceWF(x))
	case StructV:
		for _, f := range x.F {
			c.typeRangeAssume(s, f)
		}
	case IfaceV:
		c.assume(s, fmt.Sprintf("(>= %s 0)", x.Tag))
	}
}

// ---------- loading and storing through pointers ----------

// fieldOf returns the fieldRef of field i of struct type t (t named or anonymous struct).
func (c *Ctx) fieldOf(t types.Type, i int) *fieldRef {
	st := structOf(t)
	f := st.Field(i)
	return &fieldRef{Owner: typeName(t), Name: f.Name(), Index: i, Ty: f.Type()}
}

// fieldAddr computes the pointer value for &base.f where base is a Ref term of struct type t.
func (c *Ctx) fieldAddr(base string, t types.Type, i int) Val {
	fr := c.fieldOf(t, i)
	if isAggregate(fr.Ty) {
		return Scalar{fmt.Sprintf("(mksub %s %d)", base, i), SRef, types.NewPointer(fr.Ty)}
	}
	return LocV{Kind: LocField, Base: base, Field: fr, Ty: types.NewPointer(fr.Ty)}
}

// loadAt loads a value of type t from pointer p (heap == nil means current heap).
func (c *Ctx) loadAt(s *State, heap map[string]string, p Val, t types.Type) Val {
	if lv, ok := p.(LocV); ok && lv.Kind == LocLocal {
		return c.localLoad(lv)
	}
	switch u := t.Underlying().(type) {
	case *types.Struct:
		ps, ok := p.(Scalar)
		if !ok {
			unsup("load struct through non-ref pointer %T", p)
		}
		sv := StructV{Ty: t}
		for i := 0; i < u.NumFields(); i++ {
			fa := c.fieldAddr(ps.T, t, i)
			sv.F = append(sv.F, c.loadAt(s, heap, fa, u.Field(i).Type()))
		}
		return sv
	case *types.Array:
		ps, ok := p.(Scalar)
		if !ok {
			unsup("load array through non-ref pointer %T", p)
		}
		es, ok := c.ar.sortOfScalar(u.Elem())
		if !ok {
			if u.Len() <= 8 && isAggregate(u.Elem()) {
				fa := FixedArrV{Ty: t}
				for i := int64(0); i < u.Len(); i++ {
					fa.E = append(fa.E, c.loadAt(s, heap, c.elemAddr(s, ps.T, c.ar.idx(i), u.Elem()), u.Elem()))
				}
				return fa
			}
			unsup("array load of non-scalar element type %s", t)
		}
		name := elemHeapName(u.Elem(), "")
		hs := c.elemHeapSort(es)
		var h string
		if heap != nil {
			if tt, ok := heap[name]; ok {
				h = tt
			} else {
				c.heapSorts[name] = hs
				c.declGlobal("heap:"+name, fmt.Sprintf("(declare-const %s %s)", q(name+"@0"), hs))
				h = q(name + "@0")
			}
		} else {
			h = c.heapTerm(s, name, hs)
		}
		return ArrayV{Term: fmt.Sprintf("(select %s %s)", h, ps.T), Ty: t}
	}
	cs := c.ar.comps(t)
	if cs == nil {
		unsup("load of type %s", t)
	}
	rd := func(cp comp) string {
		switch x := p.(type) {
		case LocV:
			switch x.Kind {
			case LocField:
				return c.fieldRead(s, heap, x.Field.Owner, x.Field.Name, cp.Path, cp.S, x.Base)
			case LocElem:
				return c.elemRead(s, heap, t, cp.Path, cp.S, x.Base, x.Idx)
			case LocCell:
				return c.fieldRead(s, heap, "cell", typeName(t), cp.Path, cp.S, x.Base)
			}
		case Scalar:
			// pointer to scalar held as Ref: cell heap
			return c.fieldRead(s, heap, "cell", typeName(t), cp.Path, cp.S, x.T)
		}
		unsup("load through %T", p)
		return ""
	}
	hname := func(cp comp) string {
		switch x := p.(type) {
		case LocV:
			switch x.Kind {
			case LocField:
				return fieldHeapName(x.Field.Owner, x.Field.Name, cp.Path)
			case LocElem:
				return elemHeapName(t, cp.Path)
			case LocCell:
				return fieldHeapName("cell", typeName(t), cp.Path)
			}
		case Scalar:
			return fieldHeapName("cell", typeName(t), cp.Path)
		}
		return ""
	}
	// the container the value is read from: what a heap version holds at a location is older than the version only if the
	// location itself existed when the version was created (a callee that returns a fresh object without listing any
	// heap as modified leaves the caller reading that object's fields from an older version: nothing is known of them)
	container := ""
	switch x := p.(type) {
	case LocV:
		container = x.Base
	case Scalar:
		container = x.T
	}
	var v Val
	switch t.Underlying().(type) {
	case *types.Slice:
		sv := SliceV{rd(cs[0]), rd(cs[1]), rd(cs[2]), rd(cs[3]), t}
		c.allocatedFactIn(s, sv.Arr, c.heapBound(s, heap, hname(cs[0])), container)
		v = sv
	case *types.Interface:
		iv := IfaceV{rd(cs[0]), rd(cs[1]), rd(cs[2]), t}
		c.allocatedFactIn(s, iv.PRef, c.heapBound(s, heap, hname(cs[1])), container)
		v = iv
	default:
		sc := Scalar{rd(cs[0]), cs[0].S, t}
		if sc.S == SRef {
			c.allocatedFactIn(s, sc.T, c.heapBound(s, heap, hname(cs[0])), container)
		}
		v = sc
	}
	return v
}

// storeAt stores v (of type t) through pointer p.
func (c *Ctx) storeAt(s *State, p Val, t types.Type, v Val) {
	if lv, ok := p.(LocV); ok && lv.Kind == LocLocal {
		c.localStore(lv, v)
		return
	}
	switch u := t.Underlying().(type) {
	case *types.Struct:
		if lv, ok := p.(LocV); ok && lv.Kind == LocLocal {
			lv.Local.val = v
			return
		}
		ps, ok := p.(Scalar)
		if !ok {
			unsup("store struct through non-ref pointer %T", p)
		}
		sv, ok := v.(StructV)
		if !ok {
			unsup("store of non-struct value %T into struct", v)
		}
		for i := 0; i < u.NumFields(); i++ {
			fa := c.fieldAddr(ps.T, t, i)
			c.storeAt(s, fa, u.Field(i).Type(), sv.F[i])
		}
		return
	case *types.Array:
		if lv, ok := p.(LocV); ok && lv.Kind == LocLocal {
			lv.Local.val = v
			return
		}
		ps, ok := p.(Scalar)
		if !ok {
			unsup("store array through non-ref pointer %T", p)
		}
		if fa, ok := v.(FixedArrV); ok {
			for i := range fa.E {
				c.storeAt(s, c.elemAddr(s, ps.T, c.ar.idx(int64(i)), u.Elem()), u.Elem(), fa.E[i])
			}
			return
		}
		av, ok := v.(ArrayV)
		if !ok {
			unsup("store of non-array value")
		}
		es, _ := c.ar.sortOfScalar(u.Elem())
		name := elemHeapName(u.Elem(), "")
		hs := c.elemHeapSort(es)
		h := c.heapTerm(s, name, hs)
		c.setHeap(s, name, hs, fmt.Sprintf("(store %s %s %s)", h, ps.T, av.Term))
		return
	}
	if lv, ok := p.(LocV); ok && lv.Kind == LocLocal {
		lv.Local.val = v
		return
	}
	cs := c.ar.comps(t)
	if cs == nil {
		unsup("store of type %s", t)
	}
	wr := func(cp comp, val string) {
		switch x := p.(type) {
		case LocV:
			switch x.Kind {
			case LocField:
				c.fieldWrite(s, x.Field.Owner, x.Field.Name, cp.Path, cp.S, x.Base, val)
				return
			case LocElem:
				c.elemWrite(s, t, cp.Path, cp.S, x.Base, x.Idx, val)
				return
			case LocCell:
				c.fieldWrite(s, "cell", typeName(t), cp.Path, cp.S, x.Base, val)
				return
			}
		case Scalar:
			c.fieldWrite(s, "cell", typeName(t), cp.Path, cp.S, x.T, val)
			return
		}
		unsup("store through %T", p)
	}
	switch x := v.(type) {
	case SliceV:
		wr(cs[0], x.Arr)
		wr(cs[1], x.Off)
		wr(cs[2], x.Len)
		wr(cs[3], x.Cap)
	case IfaceV:
		wr(cs[0], x.Tag)
		wr(cs[1], x.PRef)
		wr(cs[2], x.PInt)
	case Scalar:
		wr(cs[0], x.T)
	case LocV:
		wr(cs[0], c.locToRef(x))
	case ClosureV:
		wr(cs[0], x.Term)
	default:
		unsup("store of value %T", v)
	}
}

// locToRef converts a pointer-to-cell into a Ref term (for storing pointers in the heap).
func (c *Ctx) locToRef(l LocV) string {
	switch l.Kind {
	case LocField:
		return fmt.Sprintf("(mksub %s %d)", l.Base, l.Field.Index)
	case LocElem:
		return fmt.Sprintf("(mkelem %s %s)", l.Base, l.Idx)
	case LocCell:
		return l.Base
	}
	unsup("address of local variable escapes")
	return ""
}

// typeID returns the stable integer tag for a dynamic type.
func (c *Ctx) typeID(t types.Type) int {
	return c.eng.typeID(t)
}

// localLoad / localStore: access to (projections of) address-taken local variables.
func (c *Ctx) localLoad(lv LocV) Val {
	v := lv.Local.val
	if v == nil {
		unsup("load of uninitialised local")
	}
	for _, p := range lv.Proj {
		switch p[0] {
		case 'f':
			var i int
			fmt.Sscanf(p[2:], "%d", &i)
			sv, ok := v.(StructV)
			if !ok {
				unsup("projection of non-struct local")
			}
			v = sv.F[i]
		case 'i':
			av, ok := v.(ArrayV)
			if !ok {
				unsup("index projection of non-array local")
			}
			el := av.Ty.Underlying().(*types.Array).Elem()
			sort, _ := c.ar.sortOfScalar(el)
			v = Scalar{fmt.Sprintf("(select %s %s)", av.Term, p[2:]), sort, el}
		}
	}
	return v
}

func (c *Ctx) localStore(lv LocV, nv Val) {
	lv.Local.val = c.localUpdate(lv.Local.val, lv.Proj, nv)
}

func (c *Ctx) localUpdate(v Val, proj []string, nv Val) Val {
	if len(proj) == 0 {
		return nv
	}
	p := proj[0]
	switch p[0] {
	case 'f':
		var i int
		fmt.Sscanf(p[2:], "%d", &i)
		sv, ok := v.(StructV)
		if !ok {
			unsup("projection of non-struct local")
		}
		nf := append([]Val(nil), sv.F...)
		nf[i] = c.localUpdate(sv.F[i], proj[1:], nv)
		return StructV{F: nf, Ty: sv.Ty}
	case 'i':
		av, ok := v.(ArrayV)
		if !ok {
			unsup("index projection of non-array local")
		}
		sc, ok := nv.(Scalar)
		if !ok || len(proj) != 1 {
			unsup("store of non-scalar into local array")
		}
		return ArrayV{Term: fmt.Sprintf("(store %s %s %s)", av.Term, p[2:], sc.T), Ty: av.Ty}
	}
	unsup("bad projection")
	return nil
}

// allocatedFact: a reference obtained by a load was stored earlier, hence allocated before the current allocation pointer.
func (c *Ctx) allocatedFact(s *State, ref string) {
	if s == nil {
		return
	}
	c.allocatedFactB(s, ref, c.allocTerm(s))
}

// allocatedFactIn: ref was read from a location inside container out of a heap version created at allocation point bound.
func (c *Ctx) allocatedFactIn(s *State, ref, bound, container string) {
	if container == "" || strings.Contains(container, "!q") {
		c.allocatedFactB(s, ref, bound)
		return
	}
	if s == nil || ref == "rnil" || strings.Contains(ref, "!q") {
		return
	}
	if s.refFacts == nil {
		s.refFacts = map[string]bool{}
	}
	key := ref + "<" + bound + "@" + container
	if s.refFacts[key] {
		return
	}
	s.refFacts[key] = true
	c.assume(s, fmt.Sprintf("(=> (< (rootid %s) %s) (< (rootid %s) %s))", container, bound, ref, bound))
}

func (c *Ctx) allocatedFactB(s *State, ref, bound string) {
	if s == nil || ref == "rnil" || strings.Contains(ref, "!q") {
		return // (terms mentioning a bound quantifier variable cannot be asserted at top level)
	}
	if s.refFacts == nil {
		s.refFacts = map[string]bool{}
	}
	key := ref + "<" + bound
	if s.refFacts[key] {
		return
	}
	s.refFacts[key] = true
	c.assume(s, fmt.Sprintf("(< (rootid %s) %s)", ref, bound))
}

// privateObj: a struct-typed local variable (ref of its storage and its type) whose address never leaves the function.
type privateObj struct {
	ref string
	ty  types.Type
}
