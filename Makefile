build:
	cd govc && GOFLAGS=-mod=mod GOPROXY=off GOTOOLCHAIN=local go1.26.8 build -o ../bin/govc .
baseline:
	for p in $$(jq -r '.checks[].property_id' MANIFEST.json); do GOVC_WRITE_BASELINE=1 ./check $$p quick || true; done
selftest:
	./selftest/run.sh
